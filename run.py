#!/venv/bin/python
"""Entry point: run.py <Cxx> [--tier quick|thorough] [--seed N] [--replay f]

Exit codes: 0 held (known findings printed), 1 unlisted violation,
2 harness error.
"""
import argparse
import importlib
import os
import sys
import traceback

if os.environ.get('PYTHONHASHSEED') != '0':
    os.environ['PYTHONHASHSEED'] = '0'
    os.execv(sys.executable, [sys.executable] + sys.argv)

sys.path.insert(0, os.path.dirname(os.path.abspath(__file__)))
sys.setrecursionlimit(3000)

from mc import common  # noqa: E402

LEVELS = {
    'C01': 'exploration', 'C02': 'exploration', 'C13': 'exploration',
    'C17': 'exploration', 'C10': 'fault_enumeration',
    'C11': 'fault_enumeration', 'C12': 'fault_enumeration',
    'C15': 'fault_enumeration',
}


def main():
    ap = argparse.ArgumentParser()
    ap.add_argument('prop')
    ap.add_argument('--tier', default=os.environ.get('VERIF_TIER', 'quick'),
                    choices=['quick', 'thorough'])
    ap.add_argument('--seed', type=int, default=common.seed_from_env())
    ap.add_argument('--replay')
    a = ap.parse_args()
    prop = a.prop.upper()
    try:
        common.setup_imports()
        mod = importlib.import_module('mc.checks.' + prop.lower())
        if a.replay:
            return getattr(mod, 'replay', common.generic_replay)(a.replay)
        result = common.Result(prop, a.tier, a.seed,
                               getattr(mod, 'LEVEL',
                                       LEVELS.get(prop, 'model_checking')))
        info = mod.run(a.tier, a.seed, result)
        code = result.finish(**info)
    except common.HarnessError as e:
        print(f'HARNESS-ERROR property={prop}: {e}')
        return 2
    except Exception:
        traceback.print_exc()
        print(f'HARNESS-ERROR property={prop}: unexpected exception')
        return 2
    finally:
        try:
            from mc import e1
            e1.shutdown()
        except Exception:
            pass
    return code


if __name__ == '__main__':
    sys.exit(main())
