"""Tolerant access to implementation state.

The checks look at a few private tables (partial binary packets, outstanding
callbacks, the pending-disconnect list).  A behaviour-preserving refactoring
may rename or move them; these helpers locate them by shape instead of by
one fixed name, and degrade to "empty" rather than raising, so that a rename
can blind an *auxiliary* observation but can neither crash a check nor raise
a false alarm.  Behavioural oracles (frames, handler logs, API results) never
go through here.
"""

_SERVER_PLAIN = {'environ', 'handlers', 'namespace_handlers'}


def _is_packet(v):
    return hasattr(v, 'packet_type') and hasattr(v, 'add_attachment')


def server_partial_packets(sio):
    """dict eio_sid -> half-received packet (the live dict when found)."""
    d = getattr(sio, '_binary_packet', None)
    if isinstance(d, dict):
        return d
    cands = []
    for k, v in vars(sio).items():
        if k in _SERVER_PLAIN or not isinstance(v, dict):
            continue
        if any(_is_packet(x) for x in v.values()):
            return v
        if any(t in k.lower() for t in ('packet', 'binary', 'partial')):
            cands.append(v)
    return cands[0] if len(cands) == 1 else {}


def client_partial_packet(c):
    """The half-received packet of a client, or None."""
    if hasattr(c, '_binary_packet'):
        return c._binary_packet
    for k, v in vars(c).items():
        if _is_packet(v):
            return v
    return None


def clear_client_partial_packet(c):
    if hasattr(c, '_binary_packet'):
        c._binary_packet = None
        return
    for k, v in list(vars(c).items()):
        if _is_packet(v):
            setattr(c, k, None)


def callbacks_of(obj):
    """owner -> {id: callback}; id generators and other non-callables that
    an implementation may keep in the same table are filtered out."""
    table = getattr(obj, 'callbacks', None)
    if not isinstance(table, dict):
        return {}
    out = {}
    for owner, d in table.items():
        if isinstance(d, dict):
            out[owner] = {k: v for k, v in d.items()
                          if k != 0 and callable(v)}
    return out


def pending_disconnect(m):
    p = getattr(m, 'pending_disconnect', None)
    if isinstance(p, dict):
        return p
    for k, v in vars(m).items():
        if 'pending' in k.lower() and isinstance(v, dict):
            return v
    return {}
