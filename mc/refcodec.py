"""Specification-derived Socket.IO v5 codec (reference model 4.1).

Transcribed from the Socket.IO protocol v5 document and the reference
JavaScript parser (socket.io-parser encodeAsString / decodeString), NOT from
src/socketio/packet.py.  Uses only the standard library json module.

A packet is the tuple (type, nsp, id, data); nsp None is normalised to '/'.
"""
import json

CONNECT, DISCONNECT, EVENT, ACK, CONNECT_ERROR, BINARY_EVENT, BINARY_ACK = \
    range(7)


class Reject(Exception):
    pass


def has_binary(data):
    if isinstance(data, (bytes, bytearray)):
        return True
    if isinstance(data, (list, tuple)):
        return any(has_binary(x) for x in data)
    if isinstance(data, dict):
        return any(has_binary(v) for v in data.values())
    return False


def deconstruct(data, attachments):
    """Depth-first, document-order placeholder numbering."""
    if isinstance(data, (bytes, bytearray)):
        attachments.append(bytes(data))
        return {'_placeholder': True, 'num': len(attachments) - 1}
    if isinstance(data, list):
        return [deconstruct(x, attachments) for x in data]
    if isinstance(data, dict):
        return {k: deconstruct(v, attachments) for k, v in data.items()}
    return data


def reconstruct(data, attachments):
    if isinstance(data, list):
        return [reconstruct(x, attachments) for x in data]
    if isinstance(data, dict):
        if data.get('_placeholder') is True:
            # reference parser: the index must be a number naming one of
            # the attachments, anything else is "illegal attachments"
            n = data.get('num')
            if isinstance(n, int) and not isinstance(n, bool) and \
                    0 <= n < len(attachments):
                return attachments[n]
            raise Reject('illegal attachment index')
        return {k: reconstruct(v, attachments) for k, v in data.items()}
    return data


def ref_header(ptype, nsp, id, n_attachments):
    s = str(ptype)
    if ptype in (BINARY_EVENT, BINARY_ACK):
        s += str(n_attachments) + '-'
    if nsp is not None and nsp != '/':
        s += nsp + ','
    if id is not None:
        s += str(id)
    return s


def ref_encode(ptype, nsp, id, data):
    """Return (final_type, header, json_value_or_None, attachments).

    Type promotion EVENT->BINARY_EVENT / ACK->BINARY_ACK happens iff the
    payload has a bytes leaf; bytes in other types are illegal (ValueError).
    """
    atts = []
    if has_binary(data):
        if ptype == EVENT:
            ptype = BINARY_EVENT
        elif ptype == ACK:
            ptype = BINARY_ACK
        elif ptype not in (BINARY_EVENT, BINARY_ACK):
            raise ValueError('binary payload not allowed for this type')
    if ptype in (BINARY_EVENT, BINARY_ACK):
        data = deconstruct(data, atts)
    header = ref_header(ptype, nsp, id, len(atts))
    return ptype, header, data, atts


def ref_frame(ptype, nsp, id, data):
    ptype, header, jdata, atts = ref_encode(ptype, nsp, id, data)
    s = header
    if jdata is not None:
        s += json.dumps(jdata, separators=(',', ':'))
    return ptype, s, atts


def ref_decode(frame):
    """Strict decoder following decodeString() of the reference parser.

    Returns (type, nsp, id, data_with_placeholders, n_attachments) or raises
    Reject.  The namespace keeps any query string (the reference parser does
    not strip it); callers compare modulo the documented stripping.
    """
    if not isinstance(frame, str) or not frame:
        raise Reject('empty')
    c = frame[0]
    if c not in '0123456':
        raise Reject('unknown packet type')
    ptype = int(c)
    i = 1
    natt = 0
    if ptype in (BINARY_EVENT, BINARY_ACK):
        j = i
        while j < len(frame) and frame[j] != '-':
            j += 1
        buf = frame[i:j]
        if j >= len(frame) or not buf or not (buf.isascii() and
                                               buf.isdigit()):
            raise Reject('illegal attachments')
        natt = int(buf)
        i = j + 1
    nsp = '/'
    if i < len(frame) and frame[i] == '/':
        j = i
        while j < len(frame) and frame[j] != ',':
            j += 1
        nsp = frame[i:j]
        i = j + 1 if j < len(frame) else j
    id = None
    if i < len(frame) and frame[i].isascii() and frame[i].isdigit():
        j = i
        while j < len(frame) and frame[j].isascii() and frame[j].isdigit():
            j += 1
        id = int(frame[i:j])
        i = j
    data = None
    if i < len(frame):
        try:
            data = json.loads(frame[i:], parse_constant=_no_const)
        except (ValueError, RecursionError):
            raise Reject('invalid payload')
        if ptype in (EVENT, BINARY_EVENT):
            if not isinstance(data, list) or not data or \
                    not isinstance(data[0], (str, int)) or \
                    isinstance(data[0], bool):
                raise Reject('invalid event payload')
        elif ptype in (ACK, BINARY_ACK):
            if not isinstance(data, list):
                raise Reject('invalid ack payload')
    else:
        if ptype in (EVENT, ACK, BINARY_EVENT, BINARY_ACK):
            raise Reject('missing payload')
    return ptype, nsp, id, data, natt


def _no_const(name):
    raise ValueError('non-finite constant ' + name)


def strip_query(nsp):
    if nsp is None:
        return '/'
    q = nsp.find('?')
    return nsp if q == -1 else nsp[:q]


def typed_equal(a, b):
    """Equality that also distinguishes bytes/str, bool/int, list/dict/tuple,
    int/float (except that the JSON layer may widen nothing)."""
    if type(a) is not type(b):
        return False
    if isinstance(a, (list, tuple)):
        return len(a) == len(b) and all(typed_equal(x, y)
                                        for x, y in zip(a, b))
    if isinstance(a, dict):
        return a.keys() == b.keys() and all(typed_equal(a[k], b[k])
                                            for k in a)
    if isinstance(a, float):
        return a == b and str(a) == str(b)  # distinguishes -0.0
    return a == b


def unambiguous(ptype, nsp, id, data):
    """True iff the strict grammar recovers the packet from its own frame.

    Implemented literally: ref_decode(ref_frame(p)) == p.  Additionally a bare
    top-level numeric payload that directly follows header digits is declared
    ambiguous ('43-5'): the v5 grammar gives the '-' no delimiter role there.
    """
    try:
        ft, frame, atts = ref_frame(ptype, nsp, id, data)
        t2, n2, i2, d2, na = ref_decode(frame)
    except (Reject, ValueError):
        return False
    if isinstance(data, (int, float)) and not isinstance(data, bool):
        return False
    if (t2, i2, na) != (ft, id, len(atts)):
        return False
    if n2 != (nsp if nsp is not None else '/'):
        return False
    try:
        d2 = reconstruct(d2, atts) if atts else d2
    except Reject:
        return False
    return typed_equal(d2, data)
