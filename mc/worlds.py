"""Harness worlds (DESIGN.md section 2): small closed systems built from the
real python-socketio / python-engineio objects with the network cut away."""
import asyncio

from . import common
from .vloop import VLoop, install

socketio = common.setup_imports()

import engineio                                   # noqa: E402
from engineio import packet as eio_packet         # noqa: E402
from engineio import socket as eio_socket         # noqa: E402
from engineio import async_socket as eio_async_socket  # noqa: E402
from socketio import packet as sio_packet         # noqa: E402

from . import refcodec                            # noqa: E402


class TaskStop(BaseException):
    """Raised by harness seams to end a background task that would loop
    forever (e.g. a periodic reporter); not an error."""


class DeferredTask:
    """Stand-in for a background thread in sequential worlds: recorded, run
    later by the world in FIFO order (never inline)."""

    def __init__(self, world, target, args, kwargs):
        self.world = world
        self.target = target
        self.args = args
        self.kwargs = kwargs
        self.done = False
        self.started = False
        self.exc = None

    def run(self):
        if self.started:
            return
        self.started = True
        try:
            self.target(*self.args, **self.kwargs)
        except TaskStop:
            pass
        except Exception as e:   # a real thread would die with a traceback
            self.exc = e
            self.world.task_errors.append(repr(e))
        self.done = True

    def join(self, timeout=None):
        self.run()

    def is_alive(self):
        return self.started and not self.done


class IdNamer:
    """Renames engine.io / socket.io session ids by order of generation."""

    def __init__(self):
        self.names = {}

    def wrap(self, eio, prefix='I'):
        real = eio.generate_id
        names = self.names

        def generate_id():
            v = real()
            names[v] = '%s%d' % (prefix, len(names))
            return v
        eio.generate_id = generate_id

    def norm(self, x):
        names = self.names
        if isinstance(x, str):
            return names.get(x, x)
        if isinstance(x, list):
            return [self.norm(i) for i in x]
        if isinstance(x, tuple):
            return tuple(self.norm(i) for i in x)
        if isinstance(x, dict):
            return {self.norm(k): self.norm(v) for k, v in x.items()}
        if isinstance(x, (set, frozenset)):
            return frozenset(self.norm(i) for i in x)
        return x


class ServerWorld:
    """Real Server/AsyncServer + real engine.io server and sockets."""

    def __init__(self, is_async=False, manager=None, serializer='default',
                 setup=None, loop=None, id_prefix='I', **kwargs):
        self.is_async = is_async
        self.namer = IdNamer()
        self.log = []            # handler / callback invocations
        self.task_errors = []
        self.tasks = []
        self.transports = []     # engine.io sockets, by index
        self.serializer = serializer
        kwargs.setdefault('monitor_clients', False)
        if is_async:
            self.loop = loop or VLoop()
            install(self.loop)
            self.sio = socketio.AsyncServer(
                client_manager=manager, async_mode='asgi',
                serializer=serializer, **kwargs)
        else:
            self.loop = None
            self.sio = socketio.Server(
                client_manager=manager, async_mode='threading',
                serializer=serializer, **kwargs)
            self.sio.eio.start_background_task = self._start_task
            self.sio.eio.sleep = lambda seconds=0: None
            self.sio.eio.create_event = self._create_event
        self.eio = self.sio.eio
        self.namer.wrap(self.eio, id_prefix)
        if setup:
            setup(self)

    def _create_event(self, *args, **kwargs):
        from .cworld import SeqEvent
        return SeqEvent(self)

    def on_wait(self, ev, timeout):
        """A server thread waits on an unset event (call()): the world's
        owner may let the environment act here."""
        hook = getattr(self, 'wait_hook', None)
        if hook:
            hook(ev, timeout)

    # -- background tasks (threaded server, sequential worlds) -------------
    def _start_task(self, target, *args, **kwargs):
        self.bg_started = getattr(self, 'bg_started', 0) + 1
        t = DeferredTask(self, target, args, kwargs)
        self.tasks.append(t)
        return t

    def run_tasks(self):
        if getattr(self, 'hold_tasks', False):
            return
        n = 0
        while self.tasks:
            t = self.tasks.pop(0)
            t.run()
            n += 1
            if n > 1000:
                raise common.HarnessError('background task storm')

    # -- running an operation ----------------------------------------------
    def run(self, fn, *args, **kwargs):
        """Call a (possibly coroutine) function of the real objects, return
        ('ok', value) or ('exc', type name, message)."""
        try:
            if self.is_async:
                r = fn(*args, **kwargs)
                if asyncio.iscoroutine(r):
                    r = self.loop.run_value(r)
                else:
                    self.loop.run()
            else:
                r = fn(*args, **kwargs)
                self.run_tasks()
            return ('ok', r)
        except (common.HarnessError, KeyboardInterrupt):
            raise
        except Exception as e:
            if not self.is_async:
                self.run_tasks()
            return ('exc', type(e).__name__, self.namer.norm(str(e)))

    def api(self, name, *args, **kwargs):
        return self.run(getattr(self.sio, name), *args, **kwargs)

    # -- transports ----------------------------------------------------------
    def new_transport(self, environ=None):
        eio = self.eio
        sid = eio.generate_id()
        if self.is_async:
            s = eio_async_socket.AsyncSocket(eio, sid)
        else:
            s = eio_socket.Socket(eio, sid)
        s.last_ping = None       # the only time.time() read on the send path
        s.connected = True
        eio.sockets[sid] = s
        self.transports.append(s)
        env = environ if environ is not None else {'t': len(self.transports)}
        self.run(eio._trigger_event, 'connect', sid, env, run_async=False)
        return len(self.transports) - 1

    def eio_sid(self, t):
        return self.transports[t].sid

    def recv(self, t, data):
        """Deliver one engine.io MESSAGE from transport t (str or bytes)."""
        s = self.transports[t]
        if s.closed:
            return ('closed',)
        return self.run(s.receive, eio_packet.Packet(eio_packet.MESSAGE, data))

    def recv_packet(self, t, ptype, nsp=None, id=None, data=None):
        """Encode a Socket.IO packet with the reference codec and deliver
        all its frames."""
        r = []
        for f in self.encode(ptype, nsp, id, data):
            r.append(self.recv(t, f))
        return r

    def encode(self, ptype, nsp=None, id=None, data=None):
        if self.serializer == 'msgpack':
            import msgpack
            d = {'type': ptype, 'data': data, 'nsp': nsp or '/'}
            if id is not None:
                d['id'] = id
            return [msgpack.dumps(d)]
        _, frame, atts = refcodec.ref_frame(ptype, nsp, id, data)
        return [frame] + atts

    def lose(self, t, reason=None):
        s = self.transports[t]
        reason = reason or self.eio.reason.TRANSPORT_CLOSE
        r = self.run(s.close, wait=False, abort=True, reason=reason)
        # what engine.io's request handlers do once a socket has closed
        self.eio.sockets.pop(s.sid, None)
        return r

    def eio_close(self, t):
        """Client sends an engine.io CLOSE packet."""
        s = self.transports[t]
        if s.closed:
            return ('closed',)
        r = self.run(s.receive, eio_packet.Packet(eio_packet.CLOSE))
        self.eio.sockets.pop(s.sid, None)
        return r

    def drain_raw(self, t):
        """Pop everything queued for transport t: list of engine.io
        packets (None marks the end-of-stream sentinel)."""
        q = self.transports[t].queue
        out = []
        if self.is_async:
            while not q.empty():
                out.append(q.get_nowait())
        else:
            while not q.empty():
                out.append(q.get(block=False))
        return out

    def drain(self, t):
        """Decoded, normalised packets queued for transport t."""
        return decode_stream(self.drain_raw(t), self.serializer, self.namer)

    def drain_all(self):
        return [self.drain(t) for t in range(len(self.transports))]

    # -- observation ---------------------------------------------------------
    def sid_of(self, t, ns):
        return self.sio.manager.sid_from_eio_sid(self.transports[t].sid, ns)

    def snapshot(self):
        """Canonical manager/server state (normalised ids)."""
        m = self.sio.manager
        n = self.namer.norm
        rooms = {}
        for ns, rs in m.rooms.items():
            rooms[ns] = {repr(n(r)): sorted((n(s), n(e)) for s, e in
                                            b.items())
                         for r, b in rs.items()}
        from . import introspect
        cbs = {n(sid): sorted(d)
               for sid, d in introspect.callbacks_of(m).items()}
        cbs_raw = {n(sid): sorted(repr(k) for k in d)
                   for sid, d in (getattr(m, 'callbacks', None) or
                                  {}).items() if isinstance(d, dict)}
        return {
            'rooms': rooms,
            'callbacks': cbs,
            'callbacks_keys': cbs_raw,
            'pending': {ns: sorted(n(s) for s in v)
                        for ns, v in introspect.pending_disconnect(
                            m).items()},
            'environ': sorted(n(k) for k in self.sio.environ),
            'binary': sorted(n(k) for k in
                             introspect.server_partial_packets(self.sio)),
        }

    def take_log(self):
        lg = list(self.log)
        del self.log[:]
        return [self.namer.norm(e) for e in lg]

    def close(self):
        if self.loop is not None:
            try:
                # cancel anything still pending so that the loop can be GC'd
                for t in asyncio.all_tasks(self.loop):
                    t.cancel()
                self.loop.run()
            except Exception:
                pass
            self.loop.close()
            asyncio.set_event_loop(None)


def decode_stream(eio_pkts, serializer='default', namer=None):
    """Turn a list of queued engine.io packets into Socket.IO packets:
    ('pkt', type, nsp, id, data) with binary attachments re-inserted by the
    *reference* codec; engine.io level packets appear as ('eio', type)."""
    out = []
    pending = None
    for p in eio_pkts:
        if p is None:
            out.append(('eio', 'END'))
            continue
        if p.packet_type != eio_packet.MESSAGE:
            out.append(('eio', eio_packet.packet_names[p.packet_type]))
            continue
        d = p.data
        if serializer == 'msgpack':
            import msgpack
            try:
                m = msgpack.loads(d)
                out.append(('pkt', m.get('type'), m.get('nsp'), m.get('id'),
                            m.get('data')))
            except Exception as e:
                out.append(('undecodable', repr(d)[:80], repr(e)))
            continue
        if isinstance(d, (bytes, bytearray)):
            if pending is None:
                out.append(('stray-binary', bytes(d)))
                continue
            pending[1].append(bytes(d))
            if len(pending[1]) == pending[0][4]:
                t, nsp, id, data, _ = pending[0]
                try:
                    data = refcodec.reconstruct(data, pending[1])
                    out.append(('pkt', t, nsp, id, data))
                except refcodec.Reject as e:
                    out.append(('bad-placeholders', repr(e)))
                pending = None
            continue
        if pending is not None:
            out.append(('interrupted-binary', pending[0][:3],
                        len(pending[1])))
            pending = None
        try:
            t, nsp, id, data, natt = refcodec.ref_decode(d)
        except refcodec.Reject as e:
            out.append(('undecodable', d, str(e)))
            continue
        if t in (refcodec.BINARY_EVENT, refcodec.BINARY_ACK) and natt > 0:
            pending = ((t, nsp, id, data, natt), [])
        else:
            out.append(('pkt', t, nsp, id, data))
    if pending is not None:
        out.append(('incomplete-binary', pending[0][:3], len(pending[1])))
    if namer is not None:
        out = [namer.norm(x) for x in out]
    return out
