"""E4: bounded-exhaustive generators (no sampling: every member of a small
grammar, simplest first)."""
import itertools


def leaf_alphabet(seed=0, small=False):
    """Leaves chosen to collide with the wire syntax.  The seed rotates which
    concrete strings are used, never how many."""
    strs = ['', '1-', '/x,', ',', '-', '?', '12', 'a"b\\', '\u0000\u001f',
            '\U0001F600', '{"_placeholder":true,"num":0}', '/', '0']
    k = seed % len(strs)
    strs = strs[k:] + strs[:k]
    if small:
        return [None, True, 0, -7, 1.5, strs[0], strs[1], b'', b'\x00\xff']
    return [None, True, False, 0, 1, -7, 10 ** 20, 1.5, -0.0, 1e300] + \
        strs[:6] + [b'', b'\x00\xff', b'1-']


def trees(n, leaves, keys=('k', '1-')):
    """All JSON+bytes trees with exactly n nodes (a container counts 1)."""
    if n <= 0:
        return
    if n == 1:
        for lf in leaves:
            yield lf
        yield []
        yield {}
        return
    # list with children totalling n-1 nodes
    for parts in compositions(n - 1):
        for combo in itertools.product(*[list(trees(p, leaves, keys))
                                         for p in parts]):
            yield list(combo)
    # dict with children totalling n-1 nodes (keys assigned in order)
    for parts in compositions(n - 1):
        if len(parts) > len(keys):
            continue
        for combo in itertools.product(*[list(trees(p, leaves, keys))
                                         for p in parts]):
            yield {keys[i]: v for i, v in enumerate(combo)}


def trees_upto(n, leaves, keys=('k', '1-')):
    for i in range(1, n + 1):
        yield from trees(i, leaves, keys)


def compositions(n):
    """All ordered tuples of positive ints summing to n."""
    if n == 0:
        return
    for first in range(1, n + 1):
        if first == n:
            yield (n,)
        else:
            for rest in compositions(n - first):
                yield (first,) + rest


def strings_upto(alphabet, maxlen):
    for ln in range(0, maxlen + 1):
        for t in itertools.product(alphabet, repeat=ln):
            yield ''.join(t)


def has_bytes(x):
    if isinstance(x, (bytes, bytearray)):
        return True
    if isinstance(x, (list, tuple)):
        return any(has_bytes(i) for i in x)
    if isinstance(x, dict):
        return any(has_bytes(v) for v in x.values())
    return False


def depth_of_bytes(x, d=0):
    """Max depth at which a bytes leaf sits (-1 if none)."""
    if isinstance(x, (bytes, bytearray)):
        return d
    if isinstance(x, (list, tuple)):
        return max([depth_of_bytes(i, d + 1) for i in x] + [-1])
    if isinstance(x, dict):
        return max([depth_of_bytes(v, d + 1) for v in x.values()] + [-1])
    return -1
