"""C15 (Redis backends): the listen / publish retry loops of RedisManager and
AsyncRedisManager driven through a fake redis module with every
success/failure word up to a bound."""
import asyncio
import itertools
import pickle
import types

from .. import common
from ..vloop import VLoop, install


class RedisError(Exception):
    pass


class Stop(BaseException):
    """Ends a scripted run (not an Exception: nothing in the library may
    swallow it)."""


def expected_sleeps(word):
    """word: outcomes of the successive (re)connection attempts after the
    first listen failure; 'F' = connect/subscribe fails, 'S' = succeeds and
    the following listen delivers one message and then fails again."""
    sleeps = []
    cur = 1
    sleeps.append(cur)          # the initial listen failure
    cur = min(cur * 2, 60)
    for o in word:
        if o == 'F':
            sleeps.append(cur)
            cur = min(cur * 2, 60)
        else:
            cur = 1
            sleeps.append(cur)  # its listen failed after one message
            cur = min(cur * 2, 60)
    return sleeps


def make_fake(word, is_async, fail_stage):
    """Fake redis module.  Attempt i (1-based, after the first failure)
    fails at `fail_stage` ('connect' or 'subscribe') when word[i-1]=='F'."""
    st = {'attempt': 0, 'published': [], 'sleeps': [], 'delivered': 0,
          'subscribes': 0, 'pos': 0}

    def next_outcome():
        i = st['attempt']
        if i == 0:
            return 'S'
        if i - 1 < len(word):
            return word[i - 1]
        return 'END'

    def msg(n):
        return {'type': 'message', 'channel': b'socketio',
                'data': pickle.dumps({'method': 'bogus', 'n': n,
                                      'host_id': 'X'})}

    class PubSub:
        def __init__(self, outcome):
            self.outcome = outcome

        def _sub(self, ch):
            st['subscribes'] += 1
            if self.outcome == 'F' and fail_stage == 'subscribe':
                raise RedisError('subscribe failed')

        def _listen_items(self):
            if self.outcome == 'END':
                raise Stop()
            st['delivered'] += 1
            yield msg(st['delivered'])
            st['attempt'] += 1
            raise RedisError('connection lost')
        if is_async:
            async def subscribe(self, ch):
                self._sub(ch)

            async def unsubscribe(self, ch):
                pass

            async def listen(self):
                for m in self._listen_items():
                    yield m
        else:
            def subscribe(self, ch):
                self._sub(ch)

            def unsubscribe(self, ch):
                pass

            def listen(self):
                yield from self._listen_items()

    class Redis:
        def __init__(self, outcome):
            self.outcome = outcome

        @classmethod
        def from_url(cls, url, **kw):
            o = next_outcome()
            if o == 'F' and fail_stage == 'connect':
                st['attempt'] += 1
                raise RedisError('cannot connect')
            r = cls(o)
            if o == 'F':
                st['attempt'] += 1
            return r

        def pubsub(self, **kw):
            return PubSub(self.outcome)
        if is_async:
            async def publish(self, ch, data):
                return self._publish(ch, data)
        else:
            def publish(self, ch, data):
                return self._publish(ch, data)

        def _publish(self, ch, data):
            script = st.setdefault('publish_script', [])
            o = script.pop(0) if script else 'S'
            if o == 'F':
                raise RedisError('publish failed')
            st['published'].append(data)
            return 1
    mod = types.SimpleNamespace(
        Redis=Redis, exceptions=types.SimpleNamespace(RedisError=RedisError))
    return mod, st


def listen_case(is_async, word, fail_stage):
    v = []
    mod, st = make_fake(word, is_async, fail_stage)
    what = f'{"Async" if is_async else ""}RedisManager listen word=' \
           f'{"".join(word)} fail at {fail_stage}'
    got = []
    if is_async:
        import socketio.async_redis_manager as rm
        saved = (rm.aioredis, rm.RedisError, rm.asyncio)
        rm.aioredis = mod
        rm.RedisError = RedisError
        loop = install(VLoop())

        async def sleep(t):
            st['sleeps'].append(t)
        rm.asyncio = types.SimpleNamespace(sleep=sleep)
        try:
            m = rm.AsyncRedisManager('redis://x')

            async def consume():
                async for data in m._listen():
                    got.append(pickle.loads(data)['n'])
            try:
                loop.run_value(consume())
            except Stop:
                pass
            except Exception as e:
                v.append(('C15/redis-listen-died', f'{what}: listen raised '
                          f'{e!r} after {got}'))
        finally:
            rm.aioredis, rm.RedisError, rm.asyncio = saved
            loop.close()
            asyncio.set_event_loop(None)
    else:
        import socketio.redis_manager as rm
        saved = (rm.redis, rm.time)
        rm.redis = mod
        rm.time = types.SimpleNamespace(
            sleep=lambda t: st['sleeps'].append(t))
        try:
            m = rm.RedisManager('redis://x')
            try:
                for data in m._listen():
                    got.append(pickle.loads(data)['n'])
            except Stop:
                pass
            except Exception as e:
                v.append(('C15/redis-listen-died', f'{what}: listen raised '
                          f'{e!r} after {got}'))
        finally:
            rm.redis, rm.time = saved
    want_msgs = list(range(1, 2 + sum(1 for o in word if o == 'S')))
    if got != want_msgs:
        v.append(('C15/redis-messages-lost', f'{what}: delivered {got}, '
                  f'expected {want_msgs} (messages published after every '
                  f'recovery must arrive)'))
    want_sleeps = expected_sleeps(word)
    if st['sleeps'][:len(want_sleeps)] != want_sleeps:
        v.append(('C15/redis-backoff', f'{what}: sleeps {st["sleeps"]}, '
                  f'expected {want_sleeps} (1,2,4,...,60, reset after a '
                  f'successful reconnection)'))
    return v


def _quiet_server():
    import logging
    lg = logging.getLogger('verif.c15.redis')
    lg.disabled = True
    return types.SimpleNamespace(logger=lg)


def restart_case(is_async, bad):
    """The real listener (_thread over _listen) of a Redis manager on a
    stateful fake: messages reach the manager only while the channel is
    subscribed.  A bad value between two valid messages makes the listener
    restart its iteration; the message that follows must still arrive."""
    import gc
    import json
    v = []
    what = f'{"Async" if is_async else ""}RedisManager listener, ' \
           f'valid / {bad!r} / valid'
    handled = []
    feed = [pickle.dumps({'method': 'emit', 'n': 1, 'host_id': 'X'}), bad,
            pickle.dumps({'method': 'emit', 'n': 2, 'host_id': 'X'})]
    state = {'subscribed': set(), 'pos': 0, 'log': []}

    def item(pubsub):
        gc.collect()
        if state['pos'] >= len(feed):
            raise Stop()
        if 'socketio' not in state['subscribed']:
            state['log'].append('not subscribed when message %d was due'
                                % (state['pos'] + 1))
            raise Stop()
        d = feed[state['pos']]
        state['pos'] += 1
        return {'type': 'message', 'channel': b'socketio', 'data': d}

    class PubSub:
        if is_async:
            async def subscribe(self, ch):
                state['subscribed'].add(ch)

            async def unsubscribe(self, ch):
                state['subscribed'].discard(ch)

            async def listen(self):
                while True:
                    # give abandoned generators the chance to be finalised
                    # by the event loop before the next message is due
                    gc.collect()
                    for _ in range(3):
                        await asyncio.sleep(0)
                    yield item(self)
        else:
            def subscribe(self, ch):
                state['subscribed'].add(ch)

            def unsubscribe(self, ch):
                state['subscribed'].discard(ch)

            def listen(self):
                while True:
                    yield item(self)

    class Redis:
        @classmethod
        def from_url(cls, url, **kw):
            return cls()

        def pubsub(self, **kw):
            return PubSub()
    mod = types.SimpleNamespace(
        Redis=Redis, exceptions=types.SimpleNamespace(RedisError=RedisError))
    if is_async:
        import socketio.async_redis_manager as rm
        saved = (rm.aioredis, rm.RedisError)
        rm.aioredis = mod
        rm.RedisError = RedisError
        loop = install(VLoop())
        try:
            m = rm.AsyncRedisManager('redis://x')

            async def handle_emit(message):
                handled.append(message.get('n'))
            m._handle_emit = handle_emit
            m.server = _quiet_server()
            try:
                loop.run_value(m._thread())
            except Stop:
                pass
            except Exception as e:
                v.append(('C15/redis-listener-died', f'{what}: {e!r}'))
        finally:
            rm.aioredis, rm.RedisError = saved
            try:
                for t in asyncio.all_tasks(loop):
                    t.cancel()
                loop.run()
            except BaseException:
                pass
            loop.close()
            asyncio.set_event_loop(None)
    else:
        import socketio.redis_manager as rm
        saved = rm.redis
        rm.redis = mod
        try:
            m = rm.RedisManager('redis://x')
            m._handle_emit = lambda message: handled.append(message.get('n'))
            m.server = _quiet_server()
            try:
                m._thread()
            except Stop:
                pass
            except Exception as e:
                v.append(('C15/redis-listener-died', f'{what}: {e!r}'))
        finally:
            rm.redis = saved
    if [h for h in handled if h is not None] != [1, 2]:
        v.append(('C15/redis-restart-lost', f'{what}: handled {handled}, '
                  f'expected [1, 2] ({state["log"]})'))
    return v


RESTART_BAD = [b'7', '7', b'\x80garbage', pickle.dumps([1, 2]), b'null',
               pickle.dumps({'method': 'emit'})]


def publish_case(is_async, script):
    v = []
    mod, st = make_fake((), is_async, 'connect')
    st['publish_script'] = list(script)
    what = f'{"Async" if is_async else ""}RedisManager publish ' \
           f'outcomes={"".join(script)}'
    try:
        if is_async:
            import socketio.async_redis_manager as rm
            saved = (rm.aioredis, rm.RedisError)
            rm.aioredis = mod
            rm.RedisError = RedisError
            loop = install(VLoop())
            try:
                m = rm.AsyncRedisManager('redis://x')
                loop.run_value(m._publish({'method': 'emit', 'n': 1}))
            finally:
                rm.aioredis, rm.RedisError = saved
                loop.close()
                asyncio.set_event_loop(None)
        else:
            import socketio.redis_manager as rm
            saved = rm.redis
            rm.redis = mod
            try:
                m = rm.RedisManager('redis://x')
                m._publish({'method': 'emit', 'n': 1})
            finally:
                rm.redis = saved
    except Exception as e:
        v.append(('C15/redis-publish-raised', f'{what}: _publish raised '
                  f'{e!r} (it must give up quietly after one retry)'))
        return v
    want = 1 if 'S' in script[:2] or not script else 0
    if len(st['published']) != want:
        v.append(('C15/redis-publish', f'{what}: {len(st["published"])} '
                  f'messages went out, expected {want}'))
    return v


def run(tier, seed, result):
    common.setup_imports()
    n = 0
    maxlen = 4 if tier == 'quick' else 8
    for is_async in (False, True):
        for ln in range(0, maxlen + 1):
            for word in itertools.product('FS', repeat=ln):
                for stage in ('connect', 'subscribe'):
                    n += 1
                    for key, msg in listen_case(is_async, word, stage):
                        result.violation(key, msg, {'replay': {
                            'module': 'mc.checks.c15_redis',
                            'func': 'replay_listen',
                            'args': [is_async, ''.join(word), stage]}})
        # long failure run: the back-off must cap at 60
        n += 1
        for key, msg in listen_case(is_async, ('F',) * 9, 'connect'):
            result.violation(key, msg, {'replay': {
                'module': 'mc.checks.c15_redis', 'func': 'replay_listen',
                'args': [is_async, 'F' * 9, 'connect']}})
        for script in ((), ('S',), ('F', 'S'), ('F', 'F'), ('F', 'F', 'S')):
            n += 1
            for key, msg in publish_case(is_async, script):
                result.violation(key, msg, {'replay': {
                    'module': 'mc.checks.c15_redis',
                    'func': 'replay_publish',
                    'args': [is_async, ''.join(script)]}})
    for is_async in (False, True):
        for i, bad in enumerate(RESTART_BAD):
            n += 1
            for key, msg in restart_case(is_async, bad):
                result.violation(key, msg, {'replay': {
                    'module': 'mc.checks.c15_redis',
                    'func': 'replay_restart', 'args': [is_async, i]}})
    return (f'Redis backends through a fake module: {n} retry words '
            f'(every F/S word up to length {maxlen} x failure at connect / '
            f'subscribe, a 9-failure run, 5 publish scripts)'), n


def replay_listen(is_async, word, stage):
    common.setup_imports()
    return listen_case(is_async, tuple(word), stage)


def replay_restart(is_async, i):
    common.setup_imports()
    return restart_case(is_async, RESTART_BAD[i])


def replay_publish(is_async, script):
    common.setup_imports()
    return publish_case(is_async, tuple(script))
