"""C03 part 3 (E3): the threaded twin of c03_sched.

Threaded Server, three clients on '/', rooms r1/r2.  One thread emits, other
threads change memberships; scheduling points before every call the server
makes into the client manager and the transport layer (so the emit can be
preempted between two recipients).  Same oracle as c03_sched: the delivered
set, each recipient exactly once, equals the eligible set of one instant of
the emit.
"""
from .. import common, threads
from ..par import pmap
from ..worlds import ServerWorld
from . import c03_sched
from .c20 import PointProxy

EMITS = c03_sched.EMITS
CHANGERS = c03_sched.CHANGERS


def scenario_for(emit, changer):
    _, to, skip = emit
    tasks = changer[1]

    def scenario(sched):
        w = ServerWorld(is_async=False, namespaces=['/'])
        sio = w.sio
        ts = [w.new_transport() for _ in range(3)]
        for t in ts:
            w.recv_packet(t, 0, '/')
        sids = [w.sid_of(t, '/') for t in ts]
        mem = {'r1': {0}, 'r2': {1, 2}}
        live = {0, 1, 2}
        for r, who in mem.items():
            for i in who:
                sio.enter_room(sids[i], r)
        w.drain_all()
        calls = []
        real_manager, real_eio = sio.manager, sio.eio
        sio.manager = PointProxy(real_manager, sched, 'manager', calls)
        sio.eio = PointProxy(real_eio, sched, 'eio', calls)
        real_manager.server = sio
        inflight = set()
        instants = []
        state = {'emitting': False, 'done': False}
        errors = []

        def eligible():
            if to is None:
                e = set(live)
            else:
                rooms = to if isinstance(to, list) else [to]
                e = set()
                for r in rooms:
                    e |= mem.get(r, set())
                e &= live
            if skip is not None:
                e.discard(skip)
            return frozenset(e)

        def record():
            if state['emitting']:
                instants.append((eligible(), frozenset(inflight)))

        def emitter():
            sched.point('start:emit')
            state['emitting'] = True
            record()
            try:
                sio.emit('ev', 1, to=(list(to) if isinstance(to, list)
                                      else to),
                         skip_sid=None if skip is None else sids[skip])
            except Exception as e:
                errors.append(('emit', repr(e)))
            record()
            state['emitting'] = False
            state['done'] = True

        def changer_thread(steps):
            for st in steps:
                sched.point('start:' + st[0])
                try:
                    if st[0] == 'enter':
                        sio.enter_room(sids[st[1]], st[2])
                        if st[1] in live:
                            mem.setdefault(st[2], set()).add(st[1])
                    elif st[0] == 'leave':
                        sio.leave_room(sids[st[1]], st[2])
                        mem.get(st[2], set()).discard(st[1])
                    elif st[0] == 'close':
                        sio.close_room(st[1])
                        mem.pop(st[1], None)
                    elif st[0] == 'sdisc':
                        inflight.add(st[1])
                        record()
                        sio.disconnect(sids[st[1]])
                        live.discard(st[1])
                        for who in mem.values():
                            who.discard(st[1])
                        inflight.discard(st[1])
                except Exception as e:
                    errors.append((st, repr(e)))
                record()
        sched.spawn(emitter, name='emit')
        for i, steps in enumerate(tasks):
            sched.spawn(changer_thread, steps, name='chg%d' % i)

        def finish(status):
            sio.manager, sio.eio = real_manager, real_eio
            got = {}
            bad = []
            for i, t in enumerate(ts):
                frames = [f for f in w.drain(t) if f[0] != 'eio' and
                          not (f[0] == 'pkt' and f[1] == 1)]
                evs = [f for f in frames if f[0] == 'pkt' and f[1] in (2, 5)]
                if evs != frames:
                    bad.append((i, frames))
                if evs:
                    got[i] = evs
            out = {'got': got, 'bad': bad, 'instants': instants,
                   'errors': errors + [(t.name, repr(t.exc))
                                       for t in sched.threads
                                       if t.exc is not None],
                   'loop_errors': [], 'horizon': status != 'done',
                   'done': state['done'],
                   'parked': [] if status == 'done' else [status]}
            w.close()
            return out
        return finish
    return scenario


def job(args):
    ei, ci, bound, cap = args
    common.setup_imports()
    emit, changer = EMITS[ei], CHANGERS[ci]
    viols = []

    def on(choices, out):
        for key, msg in c03_sched.judge(emit, changer, False, out):
            if len(viols) < 3:
                viols.append((key.replace('/sched-', '/threads-'),
                              'threaded Server: ' + msg, {'replay': {
                                  'module': 'mc.checks.c03_threads',
                                  'func': 'replay',
                                  'args': [ei, ci,
                                           [c[1] for c in choices]]}}))
    st = threads.explore(scenario_for(emit, changer), on, bound=bound,
                         max_execs=cap)
    return st, viols


def replay(ei, ci, prefix):
    common.setup_imports()
    emit, changer = EMITS[ei], CHANGERS[ci]
    choices, out = threads.run_one(scenario_for(emit, changer), list(prefix))
    return [(k.replace('/sched-', '/threads-'), m)
            for k, m in c03_sched.judge(emit, changer, False, out)]


def run(tier, seed, result):
    bound, cap = (2, 1500) if tier == 'quick' else (3, 6000)
    jobs = [(ei, ci, bound, cap) for ei in range(len(EMITS))
            for ci in range(len(CHANGERS))]
    total = 0
    capped = 0
    for st, viols in pmap(job, jobs):
        total += st['executions']
        capped += 0 if st['complete'] else 1
        for key, msg, wit in viols:
            result.violation(key, msg, wit)
    result.add('thread_schedules', total)
    return f'E3: emit vs concurrent membership changes on the threaded ' \
           f'Server, {len(jobs)} scenarios, {total} schedules with <= ' \
           f'{bound} preemptions ({capped} capped at {cap})'
