"""C19 SimpleClient: events are received once each, in arrival order.

E3 (threads): the real SimpleClient on the client world; the producer thread
runs the real message handling for events e1..e3 and connection losses, the
consumer thread calls receive()/emit(); scheduling points at every event
operation and at every line of simple_client.py.
E2 (asyncio): AsyncSimpleClient with arrivals, receives and timers in every
order (c19_async.py).
"""
import socketio
import socketio.simple_client as scmod

from .. import common, threads
from ..cworld import ClientWorld
from ..par import pmap
from engineio import packet as eio_packet

TRACE = ('socketio/simple_client.py',)

# name -> (producer script, consumer script, client options)
SCENARIOS = {
    'burst2': (['e1', 'e2'], [('receive', None), ('receive', None)], {}),
    'burst3': (['e1', 'e2', 'e3'], [('receive', None)] * 3, {}),
    'timed': (['e1'], [('receive', 5), ('receive', 5)], {}),
    'timed2': (['e1', 'e2'], [('receive', 5), ('receive', 5),
                              ('receive', 5)], {}),
    'final-loss': (['e1', 'loss'], [('receive', None), ('receive', None)],
                   {'reconnection': False}),
    'loss-then-event': (['loss'], [('receive', 5)],
                        {'reconnection': False}),
    'emit-reconnect': (['loss'], [('emit',), ('receive', 5)],
                       {'reconnection': True, 'after_reconnect': ['e1']}),
    # an event is buffered, the connection is lost and comes back, the
    # server sends another event: both must be returned, in order
    'buffer-across-reconnect': (['e1', 'loss'],
                                [('receive', 5), ('receive', 5)],
                                {'reconnection': True,
                                 'after_reconnect': ['e2']}),
    # receive() is waiting out a reconnection; the server greets the client
    # right behind its CONNECT answer
    'receive-reconnect': (['loss'], [('receive', 5)],
                          {'reconnection': True, 'greeting': 'e1'}),
    # a burst is buffered, then the connection is lost (and comes back
    # later): whichever wait expires or wakes, the order is kept
    'burst-then-loss': (['e1', 'e2', 'loss'],
                        [('receive', 5), ('receive', 5)],
                        {'reconnection': True}),
    # the application calls connect() on a client that is connected (an
    # error, RuntimeError) while events are buffered or arriving
    'connect-again': (['e1', 'e2'],
                      [('connect-again',), ('receive', None),
                       ('receive', None)],
                      {}),
    # the same endings on a namespace of the client's choosing
    'final-loss-ns': (['e1', 'loss'], [('receive', None), ('receive', None)],
                      {'reconnection': False, 'namespace': '/chat'}),
    'emit-final-ns': (['loss'], [('emit',), ('wait-final',), ('call',),
                                 ('emit',)],
                      {'reconnection': True, 'reconnect_fails': True,
                       'namespace': '/chat'}),
    'emit-final': (['loss'], [('emit',), ('wait-final',), ('call',),
                              ('emit',)],
                   {'reconnection': True, 'reconnect_fails': True}),
}


def NSP(opts):
    ns = opts.get('namespace', '/')
    return '' if ns == '/' else ns + ','


def scenario_for(name):
    producer_script, consumer_script, opts = SCENARIOS[name]

    def scenario(sched):
        recon = opts.get('reconnection', False)
        w = ClientWorld(
            is_async=False, instantiate=False, reconnection=recon,
            reconnection_attempts=1, reconnection_delay=1,
            randomization_factor=0,
            event_factory=lambda: sched.event('cev'))
        saved_event = scmod.Event
        scmod.Event = lambda: sched.event('sev')

        class SC(socketio.SimpleClient):
            client_class = w.C
        sc = SC(**w.client_kwargs)
        inline = [True]

        def task_factory(target, *a, **k):
            if inline[0]:
                target(*a, **k)
                return None
            return sched.spawn(target, *a, name='task', **k)
        w.task_factory = task_factory
        nconn = [0]
        back_ref = [None]
        deliver_ref = [None]

        def send_hook(pkt):
            # the server accepts every namespace CONNECT; after set-up its
            # answer arrives on a thread of its own (the read loop)
            if pkt.packet_type == eio_packet.MESSAGE and \
                    isinstance(pkt.data, str) and pkt.data[:1] == '0':
                nconn[0] += 1
                n = nconn[0]

                def answer():
                    if w.eio.state != 'connected':
                        return
                    sc.client._handle_eio_message('0%s{"sid":"S%d"}' % (
                        NSP(opts), n))
                    if n >= 2 and opts.get('greeting'):
                        deliver_ref[0](opts['greeting'])
                    if n >= 2:
                        back_ref[0].set()
                if inline[0]:
                    answer()
                else:
                    sched.spawn(answer, name='accept')
        w.send_hook = send_hook
        if opts.get('reconnect_fails'):
            w.connect_script = ['ok', 'fail']
        try:
            sc.connect('http://h', namespace=opts.get('namespace', '/'))
        finally:
            scmod.Event = saved_event
        inline[0] = False
        st = {'arrived': [], 'completed': 0, 'returned': [],
              'results': [], 'final': False, 'timeouts_bad': [],
              'reconnected': False}
        gone = sched.event('gone')
        orig_trigger = sc.client._trigger_event

        def trigger(event, *a, **k):
            if event == '__disconnect_final':
                st['final'] = True     # ended for good from here on
            r = orig_trigger(event, *a, **k)
            if event == '__disconnect_final':
                gone.set()
            return r
        sc.client._trigger_event = trigger
        w.outbox[:] = []

        def on_timeout(thread, ev):
            if thread.name == 'consumer':
                pending = st['completed'] - len(st['returned'])
                st['timeouts_bad'].append(pending)
                st['last_timeout_pending'] = pending
        sched.on_timeout = on_timeout

        def deliver(ev):
            st['arrived'].append(ev)
            sc.client._handle_eio_message('2%s["%s",1]' % (NSP(opts), ev))
            st['completed'] += 1

        deliver_ref[0] = deliver

        def producer():
            for step in producer_script:
                if step == 'loss':
                    eio = w.eio
                    if eio.state == 'connected':
                        eio._trigger_event('disconnect',
                                           eio.reason.TRANSPORT_ERROR,
                                           run_async=False)
                        eio._reset()
                else:
                    deliver(step)

        back = sched.event('back')
        back_ref[0] = back

        def after_reconnect():
            # runs in its own thread: events the server sends once it has
            # accepted the client again
            for ev in opts.get('after_reconnect', []):
                if not back.wait(timeout=1):
                    return          # the client never came back
                deliver(ev)

        def consumer():
            for call in consumer_script:
                try:
                    if call[0] == 'receive':
                        r = sc.receive(timeout=call[1])
                        st['returned'].append(r)
                        st['results'].append(('ok', r))
                    elif call[0] == 'emit':
                        sc.emit('x', 1)
                        st['results'].append(('emit-ok', w.eio.state,
                                              sc.client.connected))
                    elif call[0] == 'call':
                        sc.call('x', 1, timeout=5)
                        st['results'].append(('call-ok',))
                    elif call[0] == 'connect-again':
                        try:
                            sc.connect('http://h')
                            st['results'].append(('connect-again-ok',))
                        except RuntimeError:
                            st['results'].append(('connect-again-refused',))
                    elif call[0] == 'wait-final':
                        gone.wait()
                        st['results'].append(('final-seen',))
                except Exception as e:
                    st['results'].append(('exc', type(e).__name__,
                                          len(sc.input_buffer),
                                          st['final'],
                                          st['completed'] -
                                          len(st['returned']),
                                          st.get('last_timeout_pending', 0)))
        sched.spawn(consumer, name='consumer')
        sched.spawn(producer, name='producer')
        if opts.get('after_reconnect'):
            sched.spawn(after_reconnect, name='server')

        def finish(status):
            out = dict(st)
            out['status'] = status
            out['excs'] = [(t.name, repr(t.exc)) for t in sched.threads
                           if t.exc is not None]
            out['buffer'] = list(sc.input_buffer)
            out['outbox'] = [p.data for p in w.outbox
                             if p.packet_type == eio_packet.MESSAGE]
            out['blocked'] = [(t.name, t.label) for t in sched.threads
                              if t.state == 'blocked']
            w.close()
            return out
        return finish
    return scenario


def judge(name, out):
    v = []
    producer_script, consumer_script, opts = SCENARIOS[name]
    if out['status'] == 'deadlock':
        who = [b for b in out['blocked'] if b[0] == 'consumer']
        if who and out['buffer']:
            v.append(('C19/lost-wakeup', f'{name}: receive() is blocked '
                      f'forever although {out["buffer"]} is buffered'))
        else:
            v.append(('C19/deadlock', f'{name}: {out["blocked"]} blocked '
                      f'forever; results {out["results"]}'))
        return v
    if out['status'] == 'horizon':
        return [('C19/livelock', f'{name}: execution never quiesces '
                 f'(spinning): {out["results"]}')]
    if out['excs']:
        v.append(('C19/thread-exception', f'{name}: {out["excs"]}'))
    got = [r[1] for r in out['results'] if r[0] == 'ok']
    arrived = [[e, 1] for e in out['arrived']]
    if got != arrived[:len(got)]:
        v.append(('C19/order-or-duplicate', f'{name}: receive() returned '
                  f'{got}, arrivals were {arrived}'))
    ti = 0
    for r in out['results']:
        if r[0] != 'exc':
            continue
        kind, buffered, final, pending = r[1], r[2], r[3], r[4]
        if kind == 'TimeoutError':
            # events that had fully arrived when the wait that produced
            # this TimeoutError expired
            bad = r[5] if len(r) > 5 else 0
            if bad > 0:
                v.append(('C19/timeout-with-event', f'{name}: receive() '
                          f'timed out although {bad} event(s) had fully '
                          f'arrived before the wait expired'))
        elif kind == 'DisconnectedError':
            if not final:
                v.append(('C19/premature-disconnected', f'{name}: '
                          f'DisconnectedError although the connection has '
                          f'not ended for good: {out["results"]}'))
            if buffered:
                v.append(('C19/disconnected-before-buffer', f'{name}: '
                          f'DisconnectedError while {buffered} event(s) '
                          f'were still buffered'))
        else:
            v.append(('C19/unexpected-exception', f'{name}: {r}'))
    # scenario-specific expectations
    calls = [c[0] for c in consumer_script]
    if name == 'emit-reconnect':
        r0 = out['results'][0] if out['results'] else None
        if out['final']:
            pass     # the reconnection attempt itself timed out: final
        elif not r0 or r0[0] != 'emit-ok':
            v.append(('C19/emit-during-reconnect', f'{name}: emit() should '
                      f'wait out the reconnection, got {r0}'))
        elif '2["x",1]' not in out['outbox']:
            v.append(('C19/emit-lost', f'{name}: emit() returned but the '
                      f'event was not sent: {out["outbox"]}'))
    if name in ('emit-final', 'emit-final-ns'):
        seen_final = False
        for r in out['results']:
            # an emit that got through before the loss is fine; afterwards
            # only DisconnectedError is acceptable
            if r[0] == 'final-seen':
                seen_final = True
                continue
            if seen_final and r[:2] != ('exc', 'DisconnectedError'):
                v.append(('C19/emit-after-final', f'{name}: the connection '
                          f'had ended for good, expected DisconnectedError, '
                          f'got {r}'))
            if r[0] == 'exc' and r[1] != 'DisconnectedError':
                v.append(('C19/emit-after-final', f'{name}: expected '
                          f'DisconnectedError, got {r}'))
            if r[0] == 'call-ok':
                v.append(('C19/emit-after-final', f'{name}: call() returned '
                          f'although nobody acknowledged'))
    if name == 'connect-again':
        if ('connect-again-refused',) not in out['results']:
            v.append(('C19/connect-again', f'{name}: connect() on a '
                      f'connected client: {out["results"]}'))
    if name in ('burst2', 'burst3', 'connect-again'):
        if got != arrived:
            v.append(('C19/missing-event', f'{name}: got {got}, arrived '
                      f'{arrived}'))
    if name in ('final-loss', 'final-loss-ns'):
        if len(out['results']) == 2 and \
                out['results'][1][:2] != ('exc', 'DisconnectedError'):
            v.append(('C19/no-disconnected-error', f'{name}: '
                      f'{out["results"]}'))
        if got != [['e1', 1]]:
            v.append(('C19/missing-event', f'{name}: got {got}'))
    return v


def job(args):
    name, bound, max_execs, line_level = args
    common.setup_imports()
    viols = []
    outcomes = set()
    sample = []

    def on(choices, out):
        outcomes.add(repr(out['results']))
        if not sample:
            sample.append([c[2] for c in choices][:10])
        for key, msg in judge(name, out):
            if len(viols) < 10:
                viols.append((key, msg, {'replay': {
                    'module': 'mc.checks.c19', 'func': 'replay',
                    'args': [name, line_level, [c[1] for c in choices]]}}))
    st = threads.explore(scenario_for(name), on, bound=bound,
                         max_execs=max_execs, horizon=3000,
                         trace_files=TRACE if line_level else ())
    return name, st, viols, len(outcomes), sample


def replay(name, line_level, prefix):
    common.setup_imports()
    choices, out = threads.run_one(scenario_for(name), list(prefix),
                                   horizon=3000,
                                   trace_files=TRACE if line_level else ())
    return judge(name, out)


def run(tier, seed, result):
    from . import c19_async
    jobs = []
    for name in SCENARIOS:
        if tier == 'quick':
            jobs.append((name, 2, 3000, True))
            jobs.append((name, None, 3000, False))
        else:
            jobs.append((name, 3, 25000, True))
            jobs.append((name, None, 25000, False))
    total = 0
    notes = []
    complete = True
    for name, st, viols, nout, sample in pmap(job, jobs):
        total += st['executions']
        result.add('distinct_outcomes', nout)
        if not st['complete']:
            complete = False
            notes.append(f'{name}: capped at {st["executions"]}')
        else:
            notes.append(f'{name}: {st["executions"]} schedules (bound '
                         f'{st["preemption_bound"]})')
        seen = set()
        for key, msg, wit in viols:
            if key not in seen:
                seen.add(key)
                result.violation(key, msg, wit)
        if sample and name == 'burst2':
            result.sample({'scenario': name, 'schedule': sample[0]})
    result.add('states', total)
    result.add('transitions', total)
    result.add('schedules', total)
    notes.append(c19_async.run(tier, seed, result))
    result.assumptions += [
        'threads: the producer runs the real message handling inline for '
        'each event in arrival order; the server accepts CONNECT at once',
        'an arrival racing the expiry of a timed wait may land either way; '
        'TimeoutError is a violation only if an event had fully arrived '
        '(append + signal) before the wait expired',
    ]
    return dict(
        rule='12 producer/consumer scenarios (bursts, timed receives, final '
             'loss, emit during successful/failed reconnection) under every '
             'schedule with a bounded number of preemptions at line '
             'granularity of simple_client.py plus every event operation; '
             'AsyncSimpleClient: every order of arrivals, receives and '
             'timers',
        explanation='; '.join(notes),
        exhaustive=complete)
