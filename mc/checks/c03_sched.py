"""C03 part 2 (E2): an emit on AsyncServer while memberships change.

Three clients on '/', rooms r1/r2.  One task emits (to a room, a list of
rooms, everybody), other tasks change memberships (enter+leave, leave,
close_room, server disconnect).  Every transport write parks, so the emit is
suspended between recipients; every interleaving is executed.

Oracle ("at that moment"): the harness keeps a membership ledger that is
updated atomically with every (non-suspending) room operation and records
the eligible recipient set at every instant between the start and the return
of the emit.  The set of clients that received the event, each exactly once,
must equal the eligible set of one of those instants.  A disconnect is not
atomic: while one is in flight its client may fall on either side.
"""
from .. import common, e2
from ..worlds import ServerWorld
from ..par import pmap

EMITS = [
    ('list', ['r1', 'r2'], None),
    ('list-rev', ['r2', 'r1'], None),
    ('room', 'r2', None),
    ('all', None, None),
    ('list-skip', ['r1', 'r2'], 0),
]
# concurrent membership changers: lists of tasks, each a list of steps
CHANGERS = [
    ('move', [[('enter', 2, 'r1'), ('leave', 2, 'r2')]]),
    ('move-back', [[('enter', 0, 'r2'), ('leave', 0, 'r1')]]),
    ('leave', [[('leave', 1, 'r2')]]),
    ('close', [[('close', 'r2')]]),
    ('sdisc', [[('sdisc', 1)]]),
    ('move+close', [[('enter', 2, 'r1'), ('leave', 2, 'r2')],
                    [('close', 'r1')]]),
    ('swap', [[('enter', 2, 'r1'), ('leave', 2, 'r2')],
              [('enter', 0, 'r2'), ('leave', 0, 'r1')]]),
]


def scenario_for(emit, changer, binary, multi=0):
    _, to, skip = emit
    tasks = changer[1]

    def scenario(loop):
        loop.setup = True
        # "two completions in one selector round" deviations: thorough only
        # (they multiply the number of schedules by ~8 here)
        loop.multi_budget = multi
        w = ServerWorld(is_async=True, loop=loop, namespaces=['/'])
        sio = w.sio
        ts = [w.new_transport() for _ in range(3)]
        for t in ts:
            w.recv_packet(t, 0, '/')
        sids = [w.sid_of(t, '/') for t in ts]
        mem = {'r1': {0}, 'r2': {1, 2}}
        live = {0, 1, 2}
        for r, who in mem.items():
            for i in who:
                w.run(sio.enter_room, sids[i], r)
        w.drain_all()
        for t in ts:
            sock = w.transports[t]

            def mk(sock, t):
                real_send = sock.send

                async def send(pkt):
                    await real_send(pkt)
                    await loop.point('send:%d' % t)
                return send
            sock.send = mk(sock, t)
        loop.setup = False
        inflight = set()     # clients whose disconnect is in progress
        instants = []        # (eligible, uncertain) while the emit runs
        state = {'emitting': False, 'done': False}
        errors = []

        def eligible():
            if to is None:
                e = set(live)
            else:
                rooms = to if isinstance(to, list) else [to]
                e = set()
                for r in rooms:
                    e |= mem.get(r, set())
                e &= live
            if skip is not None:
                e.discard(skip)
            return frozenset(e)

        def record():
            if state['emitting']:
                instants.append((eligible(), frozenset(inflight)))

        async def emitter():
            await loop.point('start:emit')
            state['emitting'] = True
            record()
            data = {'b': b'x'} if binary else 1
            try:
                await sio.emit('ev', data, to=(
                    [r for r in to] if isinstance(to, list) else to),
                    skip_sid=None if skip is None else sids[skip])
            except Exception as e:
                errors.append(('emit', repr(e)))
            record()
            state['emitting'] = False
            state['done'] = True

        async def changer_task(steps):
            for st in steps:
                await loop.point('start:' + st[0])
                try:
                    if st[0] == 'enter':
                        await sio.enter_room(sids[st[1]], st[2])
                        if st[1] in live:
                            mem.setdefault(st[2], set()).add(st[1])
                    elif st[0] == 'leave':
                        await sio.leave_room(sids[st[1]], st[2])
                        mem.get(st[2], set()).discard(st[1])
                    elif st[0] == 'close':
                        await sio.close_room(st[1])
                        mem.pop(st[1], None)
                    elif st[0] == 'sdisc':
                        inflight.add(st[1])
                        record()
                        await sio.disconnect(sids[st[1]])
                        live.discard(st[1])
                        for who in mem.values():
                            who.discard(st[1])
                        inflight.discard(st[1])
                except Exception as e:
                    errors.append((st, repr(e)))
                record()
        loop.create_task(emitter())
        for steps in tasks:
            loop.create_task(changer_task(steps))

        def finish(hit):
            got = {}
            bad = []
            for i, t in enumerate(ts):
                frames = [f for f in w.drain(t) if f[0] != 'eio' and
                          not (f[0] == 'pkt' and f[1] == 1)]
                evs = [f for f in frames if f[0] == 'pkt' and f[1] in (2, 5)]
                if evs != frames:
                    bad.append((i, frames))
                if evs:
                    got[i] = evs
            return {'got': got, 'bad': bad, 'instants': instants,
                    'errors': errors, 'loop_errors': loop.collect_errors(),
                    'horizon': hit, 'done': state['done'],
                    'parked': [lb for lb, f in loop.parked if not f.done()]}
        return finish
    return scenario


def judge(emit, changer, binary, out):
    what = f'emit(to={emit[1]!r}, skip={emit[2]!r}) vs {changer[0]}'
    if out['horizon'] or out['parked'] or not out['done']:
        return [('C03/sched-stuck', f'{what}: {out}')]
    v = []
    if out['errors'] or out['loop_errors']:
        v.append(('C03/sched-exception', f'{what}: {out["errors"]} '
                  f'{out["loop_errors"]}'))
    if out['bad']:
        v.append(('C03/sched-frames', f'{what}: unexpected frames '
                  f'{out["bad"]}'))
    data = {'b': b'x'} if binary else 1
    for i, evs in out['got'].items():
        if evs != [('pkt', 5 if binary else 2, '/', None, ['ev', data])]:
            v.append(('C03/sched-not-once', f'{what}: client {i} received '
                      f'{evs!r}'))
    d = frozenset(out['got'])
    ok = False
    for elig, unc in out['instants']:
        if (elig - unc) <= d <= (elig | unc):
            ok = True
            break
    if not ok:
        v.append(('C03/sched-recipients', f'{what}: delivered to clients '
                  f'{sorted(d)}; the eligible sets while the emit ran were '
                  f'{[(sorted(e), sorted(u)) for e, u in out["instants"]]} '
                  f'(members, in-flight disconnects)'))
    return v


def job(args):
    ei, ci, binary = args[:3]
    multi = args[3] if len(args) > 3 else 0
    common.setup_imports()
    emit, changer = EMITS[ei], CHANGERS[ci]
    viols = []
    outs = set()

    def on(choices, out):
        outs.add(repr(sorted(out['got'])))
        for key, msg in judge(emit, changer, binary, out):
            if len(viols) < 3:
                viols.append((key, msg, {'replay': {
                    'module': 'mc.checks.c03_sched', 'func': 'replay',
                    'args': [ei, ci, binary, [c[1] for c in choices],
                             multi]}}))
    st = e2.explore(scenario_for(emit, changer, binary, multi), on)
    return st, viols, len(outs)


def replay(ei, ci, binary, prefix, multi=0):
    common.setup_imports()
    emit, changer = EMITS[ei], CHANGERS[ci]
    choices, out = e2.run_one(scenario_for(emit, changer, binary, multi),
                              list(prefix))
    return judge(emit, changer, binary, out)


def run(tier, seed, result):
    jobs = []
    for ei in range(len(EMITS)):
        for ci in range(len(CHANGERS)):
            # the double-completion deviation multiplies the schedules by
            # ~8: thorough tier, list-of-rooms emits only
            jobs.append((ei, ci, False,
                         1 if tier != 'quick' and ei in (0, 4) else 0))
    jobs.append((0, 0, True, 0 if tier == 'quick' else 1))
    total = 0
    outcomes = 0
    for st, viols, n in pmap(job, jobs):
        total += st['executions']
        outcomes += n
        if not st['complete']:
            raise common.HarnessError('C03 schedule exploration capped')
        for key, msg, wit in viols:
            result.violation(key, msg, wit)
    result.add('schedules', total)
    result.add('sched_distinct_outcomes', outcomes)
    return f'E2: emit vs concurrent membership changes on AsyncServer, ' \
           f'{len(jobs)} scenarios, {total} schedules (all interleavings ' \
           f'at transport writes and operation starts)'
