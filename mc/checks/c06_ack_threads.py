"""C06 / C09 (E3): the same acknowledgement handled by two threads at once.

engine.io hands every message to its own thread (client) or request thread
(server, overlapping requests), so a duplicated ACK can be looked up by two
threads before either removes the entry.  Line-level scheduling points in
manager.py / client.py, every schedule within the preemption bound: the
callback runs exactly once and neither thread raises.
"""
from .. import common, threads
from ..par import pmap
from ..worlds import ServerWorld, eio_packet
from ..cworld import ClientWorld

TRACE = {'server': ('socketio/manager.py', 'socketio/base_manager.py'),
         'client': ('socketio/client.py',)}


def scenario_for(side):
    def scenario(sched):
        fired = []
        if side == 'server':
            w = ServerWorld(is_async=False, namespaces=['/'])
            t = w.new_transport()
            w.recv_packet(t, 0, '/')
            sock = w.transports[t]
            sid = w.sid_of(t, '/')
            w.api('emit', 'q', 1, to=sid, callback=lambda *a: fired.append(a))
            frames = [f for f in w.drain(t) if f[0] == 'pkt' and f[1] == 2]
            ack = '3%d["a"]' % frames[0][3]

            def deliver():
                sock.receive(eio_packet.Packet(eio_packet.MESSAGE, ack))
        else:
            w = ClientWorld(is_async=False, reconnection=False)
            r = w.connect(script=[['0{"sid":"s1"}']], namespaces=['/'])
            if r[0] != 'ok':
                raise common.HarnessError(f'connect failed {r}')
            w.api('emit', 'q', 1, callback=lambda *a: fired.append(a))
            frames = [f for f in w.take_outbox() if f[0] == 'pkt' and f[1] == 2]
            ack = '3%d["a"]' % frames[0][3]
            c = w.c

            def deliver():
                # through engine.io's own dispatch, as for a real message
                # (it logs and swallows what a handler raises)
                w.eio._trigger_event('message', ack, run_async=False)
        for i in range(2):
            sched.spawn(deliver, name='ack%d' % i)

        def finish(status):
            out = {'status': status, 'fired': list(fired),
                   'excs': [(t.name, repr(t.exc)) for t in sched.threads
                            if t.exc is not None]}
            w.close()
            return out
        return finish
    return scenario


def judge(side, out):
    what = f'{side}: one ACK handled by two threads at once'
    if out['status'] != 'done':
        return [(f'C06/ack-threads-stuck', f'{what}: {out}')]
    v = []
    prop = 'C06' if side == 'server' else 'C09'
    if len(out['fired']) != 1:
        v.append((f'{prop}/ack-threads-fired', f'{what}: the callback ran '
                  f'{len(out["fired"])} times: {out["fired"]}'))
    if out['excs']:
        v.append((f'{prop}/ack-threads-exception', f'{what}: the repeated '
                  f'ACK was not ignored quietly: {out["excs"]}'))
    return v


def job(args):
    side, bound, cap = args
    common.setup_imports()
    viols = []

    def on(choices, out):
        for key, msg in judge(side, out):
            if len(viols) < 3 and key not in [v[0] for v in viols]:
                viols.append((key, msg, {'replay': {
                    'module': 'mc.checks.c06_ack_threads', 'func': 'replay',
                    'args': [side, [c[1] for c in choices]]}}))
    st = threads.explore(scenario_for(side), on, bound=bound, max_execs=cap,
                         trace_files=TRACE[side])
    return side, st, viols


def replay(side, prefix):
    common.setup_imports()
    choices, out = threads.run_one(scenario_for(side), list(prefix),
                                   trace_files=TRACE[side])
    return judge(side, out)


def run(tier, seed, result, side):
    bound, cap = (2, 4000) if tier == 'quick' else (3, 40000)
    _, st, viols = job((side, bound, cap))
    for key, msg, wit in viols:
        result.violation(key, msg, wit)
    result.add('thread_schedules', st['executions'])
    return f'E3: one ACK handled by two {side} threads at once, ' \
           f'{st["executions"]} schedules with <= {bound} preemptions at ' \
           f'line granularity (complete: {st["complete"]})'
