"""C06 call(): all orders of {ACK arrives, timeout expires, client
disconnects}.  AsyncServer under E2; threaded Server under E3."""
from .. import common, e2
from ..worlds import ServerWorld, eio_packet
from ..par import pmap

ACKS = [[], [5], ['a', 2], [b'bin'], [0], [None]]
ENVS = [('ack',), ('ack', 'cdisc'), ('ack', 'loss'), ('ack', 'ack2'),
        ('cdisc',), ()]


def expected(args):
    if len(args) == 0:
        return None
    if len(args) == 1:
        return args[0]
    return tuple(args)


def async_scenario(env, ack_args, coro_handlers=True, park_send=False):
    def scenario(loop):
        w = ServerWorld(is_async=True, loop=loop, namespaces=['/'])
        sio = w.sio
        t = w.new_transport()
        w.recv_packet(t, 0, '/')
        sock = w.transports[t]
        sid = w.sid_of(t, '/')
        w.drain_all()
        if park_send:
            # the transport write of the event is a suspension point: the
            # client may answer before call() gets to wait for the answer
            real_send = sock.send

            async def send(pkt):
                await real_send(pkt)
                await loop.point('send')
            sock.send = send
        res = {}
        marks = []

        async def caller():
            await loop.point('start:call')
            try:
                res['value'] = await sio.call('q', {'x': 1}, to=sid,
                                              timeout=5)
            except Exception as e:
                res['exc'] = type(e).__name__
            marks.append(('call-done', loop.time()))

        async def do(name):
            await loop.point('start:' + name)
            if name in ('ack', 'ack2'):
                # the client can only acknowledge an event it has seen
                frames = [f for f in w.drain(t) if f[0] == 'pkt']
                ids = [f[3] for f in frames if f[1] == 2]
                id = ids[0] if ids else res.get('seen_id')
                if id is None:
                    marks.append((name + '-nothing-to-ack',))
                    return
                res['seen_id'] = id
                marks.append((name, sio.manager.is_connected(sid, '/'),
                              loop.timer_fired, 'value' in res or
                              'exc' in res))
                for f in w.encode(3, '/', id, ack_args):
                    await sock.receive(
                        eio_packet.Packet(eio_packet.MESSAGE, f))
                marks.append((name + '-delivered', loop.timer_fired))
            elif name == 'cdisc':
                marks.append(('cdisc',))
                await sock.receive(eio_packet.Packet(eio_packet.MESSAGE, '1'))
            elif name == 'loss':
                marks.append(('loss',))
                await sock.close(wait=False, abort=True,
                                 reason='transport close')
        loop.create_task(caller())
        for name in env:
            loop.create_task(do(name))

        def finish(hit):
            return {'res': {k: v for k, v in res.items() if k != 'seen_id'},
                    'marks': marks, 'horizon': hit,
                    'errors': loop.collect_errors(),
                    'parked': [lb for lb, f in loop.parked if not f.done()],
                    'outstanding': sorted(
                        __import__('mc.introspect', fromlist=['x'])
                        .callbacks_of(sio.manager).get(sid, {}))}
        return finish
    return scenario


def two_calls_scenario(ack_args):
    """Two overlapping call()s to the same client: A is never acknowledged
    and times out (2 s), B (timeout far beyond the run) is acknowledged.
    Every interleaving of A's expiry with B's start and B's ACK."""
    def scenario(loop):
        loop.setup = True
        w = ServerWorld(is_async=True, loop=loop, namespaces=['/'])
        sio = w.sio
        t = w.new_transport()
        w.recv_packet(t, 0, '/')
        sock = w.transports[t]
        sid = w.sid_of(t, '/')
        w.drain_all()
        loop.setup = False
        loop.time_limit = 100
        res = {}
        marks = []
        seen = []

        async def caller(tag, timeout):
            await loop.point('start:call' + tag)
            try:
                res[tag] = ('value', await sio.call('q' + tag, 1, to=sid,
                                                    timeout=timeout))
            except Exception as e:
                res[tag] = ('exc', type(e).__name__)

        async def ack_b():
            for attempt in range(2):
                await loop.point('ackB-%d' % attempt)
                seen.extend(f for f in w.drain(t) if f[0] == 'pkt')
                ids = [f[3] for f in seen if f[1] == 2 and f[4][0] == 'qB']
                if ids:
                    marks.append(('ackB', sio.manager.is_connected(sid, '/')))
                    for f in w.encode(3, '/', ids[0], ack_args):
                        await sock.receive(
                            eio_packet.Packet(eio_packet.MESSAGE, f))
                    return
            marks.append(('ackB-nothing',))
        loop.create_task(caller('A', 2))
        loop.create_task(caller('B', 1000))
        loop.create_task(ack_b())

        def finish(hit):
            return {'res': dict(res), 'marks': marks, 'horizon': hit,
                    'errors': loop.collect_errors(),
                    'parked': [lb for lb, f in loop.parked if not f.done()]}
        return finish
    return scenario


def judge_two(ack_args, out):
    v = []
    if out['horizon'] or out['parked']:
        return [('C06/call-stuck', f'two calls: {out}')]
    if out['errors']:
        v.append(('C06/call-loop-error', f'two calls: {out["errors"]}'))
    res = out['res']
    if res.get('A') != ('exc', 'TimeoutError'):
        v.append(('C06/call-timeout', f'two calls: A was never '
                  f'acknowledged, call() gave {res.get("A")!r}'))
    if ('ackB', True) in out['marks']:
        want = expected(ack_args)
        b = res.get('B')
        if b is None or b[0] != 'value' or not _teq(b[1], want):
            v.append(('C06/call-result', f'two calls: B was acknowledged '
                      f'{ack_args!r} long before its timeout, call() gave '
                      f'{b!r} (A: {res.get("A")!r}, marks {out["marks"]})'))
    return v


def job_two(ack_args):
    common.setup_imports()
    viols = []

    def on(choices, out):
        for key, msg in judge_two(ack_args, out):
            if len(viols) < 3:
                viols.append((key, msg, {'replay': {
                    'module': 'mc.checks.c06_call', 'func': 'replay_two',
                    'args': [common.jsonable(ack_args),
                             [c[1] for c in choices]]}}))
    st = e2.explore(two_calls_scenario(ack_args), on)
    return st, viols


def replay_two(ack_args, prefix):
    common.setup_imports()
    ack_args = common.unjson(ack_args)
    choices, out = e2.run_one(two_calls_scenario(ack_args), list(prefix))
    return judge_two(ack_args, out)


def judge(env, ack_args, out):
    v = []
    if out['horizon'] or out['parked']:
        return [('C06/call-stuck', f'call() scenario did not finish: {out}')]
    if out['errors']:
        v.append(('C06/call-loop-error', f'{out["errors"]}'))
    res = out['res']
    if ('value' in res) == ('exc' in res):
        return v + [('C06/call-no-result', f'{out}')]
    v += judge_result(ack_args, out, '')
    return v


def judge_result(ack_args, out, tag):
    """An acknowledgement that began while the client was connected, the
    call pending and the timeout not fired, and whose processing finished
    before the timeout fired, MUST complete the call.  One that began in
    time but raced the expiry may land either way.  Otherwise TimeoutError.
    """
    v = []
    res = out['res']
    marks = out['marks']
    began = [m for m in marks if m[0] in ('ack', 'ack2') and m[1]
             and m[2] == 0 and not m[3]]
    done = {m[0][:-len('-delivered')]: m[1] for m in marks
            if m[0].endswith('-delivered')}
    # only the first acknowledgement to be processed can complete the call;
    # a second one carrying the same id is a duplicate and must be ignored
    first = [m for m in marks if m[0] in ('ack', 'ack2')][:1]
    must = [m for m in began if m in first and done.get(m[0]) == 0]
    began = [m for m in began if m in first]
    want = expected(ack_args)
    if 'value' in res and not _teq(res['value'], want):
        v.append(('C06/call-result', f'{tag}call() returned '
                  f'{res["value"]!r}, acknowledged {ack_args!r}'))
    if must and 'value' not in res:
        v.append(('C06/call-result', f'{tag}acknowledged {ack_args!r} in '
                  f'time, call() gave {res!r}; marks {marks}'))
    if not began and res.get('exc') != 'TimeoutError':
        v.append(('C06/call-timeout', f'{tag}no valid acknowledgement in '
                  f'time, call() gave {res!r}; marks {marks}'))
    if 'exc' in res and res['exc'] != 'TimeoutError':
        v.append(('C06/call-exception', f'{tag}call() raised {res["exc"]}'))
    return v


def _teq(a, b):
    from ..refcodec import typed_equal
    return typed_equal(a, b)


def job(args):
    env, ack_args = args[:2]
    park = len(args) > 2 and args[2]
    common.setup_imports()
    viols = []
    outcomes = set()
    sample = []

    def on(choices, out):
        outcomes.add(repr(out['res']))
        if not sample:
            sample.append([c[2] for c in choices])
        for key, msg in judge(env, ack_args, out):
            if len(viols) < 3:
                viols.append((key, msg, {'replay': {
                    'module': 'mc.checks.c06_call', 'func': 'replay',
                    'args': [list(env), common.jsonable(ack_args),
                             [c[1] for c in choices], park]}}))
    st = e2.explore(async_scenario(env, ack_args, park_send=park), on)
    return env, st, viols, len(outcomes), sample


def replay(env, ack_args, prefix, park=False):
    common.setup_imports()
    ack_args = common.unjson(ack_args)
    choices, out = e2.run_one(async_scenario(tuple(env), ack_args,
                                             park_send=park),
                              list(prefix))
    return judge(tuple(env), ack_args, out)


def run(tier, seed, result):
    jobs = [(env, a) for env in ENVS for a in ACKS]
    # the same environments with the transport write as a suspension point
    jobs += [(env, ACKS[1], True) for env in ENVS]
    total = 0
    nout = 0
    for env, st, viols, n, sample in pmap(job, jobs):
        total += st['executions']
        nout += n
        if not st['complete']:
            raise common.HarnessError('call() exploration incomplete')
        for key, msg, wit in viols:
            result.violation(key, msg, wit)
        if sample and env == ('ack', 'cdisc'):
            result.sample({'call_env': list(env), 'schedule': sample[0]})
    two = 0
    for st, viols in pmap(job_two, [ACKS[1], ACKS[3]]):
        two += st['executions']
        if not st['complete']:
            raise common.HarnessError('two-call exploration incomplete')
        for key, msg, wit in viols:
            result.violation(key, msg, wit)
    total += two
    result.add('schedules', total)
    result.add('states', total)
    result.add('transitions', total)
    note = f'two overlapping call()s, one expiring: {two} schedules | ' \
           f'call() on AsyncServer: {total} schedules over {len(jobs)} ' \
           f'(environment, ack payload) pairs, all interleavings'
    try:
        from . import c06_call_threads
        note += ' | ' + c06_call_threads.run(tier, seed, result)
    except ImportError:
        pass
    return note
