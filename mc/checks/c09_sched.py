"""C09 (E2): AsyncClient, concurrent message tasks.  engine.io starts one
task per incoming message, so a duplicate ACK or a second event can run
while the first callback / handler is suspended; every interleaving at the
callback / handler suspension points is executed."""
from .. import common, e2
from ..cworld import ClientWorld
from ..par import pmap
from ..worlds import decode_stream

from engineio import packet as eio_packet

SCENARIOS = ['dup-ack', 'ack-two-ns', 'two-events', 'ack-and-loss',
             'bin-event-then-event', 'bin-ack-then-event',
             'bin-raise-then-bin']


def scenario_for(name):
    def scenario(loop):
        w = ClientWorld(is_async=True, loop=loop, reconnection=False)
        c = w.c
        fired = []
        hlog = []

        async def h(*args):
            hlog.append(('in', args))
            await loop.point('h-in')
            hlog.append(('out', args))
            return ('r',) + args
        async def boom(*args):
            hlog.append(('boom', args))
            await loop.point('boom-in')
            raise RuntimeError('scripted handler fault')
        c.on('h', h)
        c.on('boom', boom)
        c.on('h', h, namespace='/a')
        loop.setup = True
        r = w.connect(script=[['0{"sid":"s1"}'], ['0/a,{"sid":"s2"}']],
                      namespaces=['/', '/a'])
        if r[0] != 'ok':
            raise common.HarnessError(f'connect failed {r}')
        w.take_outbox()

        def mkcb(tag):
            async def cb(*args):
                fired.append((tag, args))
                await loop.point('cb-in')
                await loop.point('cb-out')
            return cb
        w.run(c.emit, 'q', 1, callback=mkcb('cb/'))
        w.run(c.emit, 'q', 1, namespace='/a', callback=mkcb('cb/a'))
        w.take_outbox()
        loop.setup = False

        async def deliver(frame):
            await loop.point('arrive:' + frame[:8])
            if w.eio.state == 'connected':
                await w.eio._receive_packet(
                    eio_packet.Packet(eio_packet.MESSAGE, frame))
        stream = None
        if name in ('bin-event-then-event', 'bin-ack-then-event',
                    'bin-raise-then-bin'):
            # one ordered stream (the transport does not reorder): a binary
            # packet, then an ordinary event, while the handler / callback of
            # the first is suspended.  (Transport writes are not suspension
            # points: the engine.io client's send() only queues.)
            ph = '{"_placeholder":true,"num":0}'
            if name == 'bin-event-then-event':
                stream = ['51-4["h",%s]' % ph, b'x', '25["h",2]']
            elif name == 'bin-raise-then-bin':
                # the handler of the first binary event fails while the
                # second binary event is half received
                stream = ['51-["boom",%s]' % ph, b'x',
                          '51-6["h",%s]' % ph, b'y']
            else:
                stream = ['61-1[%s]' % ph, b'x', '25["h",2]']

            async def ordered():
                for f in stream:
                    await loop.point('arrive')
                    if w.eio.state == 'connected':
                        await w.eio._receive_packet(
                            eio_packet.Packet(eio_packet.MESSAGE, f))
            loop.create_task(ordered())
            frames = []
        elif name == 'dup-ack':
            frames = ['31["a"]', '31["b"]']
        elif name == 'ack-two-ns':
            frames = ['31["a"]', '3/a,1["b"]']
        elif name == 'two-events':
            frames = ['24["h",1]', '2/a,4["h",2]']
        else:
            frames = ['31["a"]']

            async def loss():
                await loop.point('start:loss')
                w.lose_async = True
                if w.eio.state == 'connected':
                    await w.eio._trigger_event('disconnect',
                                               'transport error',
                                               run_async=False)
                    await w.eio._reset()
            loop.create_task(loss())
        for f in frames:
            loop.create_task(deliver(f))

        def finish(hit):
            return {'fired': fired, 'hlog': hlog, 'horizon': hit,
                    'out': decode_stream(w.outbox),
                    'errors': loop.collect_errors(),
                    'parked': [lb for lb, f in loop.parked if not f.done()]}
        return finish
    return scenario


def judge(name, out):
    v = []
    if out['horizon'] or out['parked']:
        return [('C09/sched-stuck', f'{name}: {out}')]
    errors = [e for e in out['errors']
              if 'scripted handler fault' not in repr(e)]
    if errors:
        v.append(('C09/sched-loop-error', f'{name}: {errors}'))
    tags = [t for t, a in out['fired']]
    if len(tags) != len(set(tags)):
        v.append(('C09/fired-twice', f'{name}: callbacks fired {out["fired"]}'))
    if name == 'dup-ack':
        if len(out['fired']) != 1 or out['fired'][0][0] != 'cb/':
            v.append(('C09/sched-callback', f'{name}: fired {out["fired"]}'))
    elif name == 'ack-two-ns':
        if sorted(out['fired']) != [('cb/', ('a',)), ('cb/a', ('b',))]:
            v.append(('C09/sched-callback', f'{name}: fired {out["fired"]}'))
    elif name == 'two-events':
        acks = sorted(f for f in out['out'] if f[0] == 'pkt')
        want = sorted([('pkt', 3, '/', 4, ['r', 1]),
                       ('pkt', 3, '/a', 4, ['r', 2])])
        if acks != want:
            v.append(('C09/sched-event-ack', f'{name}: client sent {acks}, '
                      f'expected {want}'))
        if sorted(e for e in out['hlog'] if e[0] == 'in') != \
                [('in', (1,)), ('in', (2,))]:
            v.append(('C09/sched-handler', f'{name}: {out["hlog"]}'))
    elif name == 'bin-raise-then-bin':
        acks = sorted(f for f in out['out'] if f[0] == 'pkt')
        ins = [e for e in out['hlog'] if e[0] == 'in']
        if acks != [('pkt', 6, '/', 6, ['r', b'y'])] or \
                ins != [('in', (b'y',))]:
            v.append(('C09/sched-fault-spill', f'{name}: the failure of the '
                      f'first event\'s handler reached the second event: '
                      f'handler log {out["hlog"]}, client sent {acks}'))
    elif name in ('bin-event-then-event', 'bin-ack-then-event'):
        acks = sorted(f for f in out['out'] if f[0] == 'pkt')
        ins = sorted((e for e in out['hlog'] if e[0] == 'in'), key=repr)
        if name == 'bin-event-then-event':
            want = sorted([('pkt', 6, '/', 4, ['r', b'x']),
                           ('pkt', 3, '/', 5, ['r', 2])])
            want_in = sorted([('in', (b'x',)), ('in', (2,))], key=repr)
            want_fired = []
        else:
            want = [('pkt', 3, '/', 5, ['r', 2])]
            want_in = [('in', (2,))]
            want_fired = [('cb/', (b'x',))]
        if acks != want:
            v.append(('C09/sched-event-ack', f'{name}: client sent {acks}, '
                      f'expected {want}'))
        if ins != want_in:
            v.append(('C09/sched-handler', f'{name}: handler log '
                      f'{out["hlog"]}, expected entries {want_in}'))
        if out['fired'] != want_fired:
            v.append(('C09/sched-callback', f'{name}: fired {out["fired"]}, '
                      f'expected {want_fired}'))
    elif name == 'ack-and-loss':
        if len(out['fired']) > 1:
            v.append(('C09/fired-twice', f'{name}: {out["fired"]}'))
    return v


def job(name):
    common.setup_imports()
    viols = []
    outs = set()

    def on(choices, out):
        outs.add(repr((out['fired'], out['out'])))
        for key, msg in judge(name, out):
            if len(viols) < 3:
                viols.append((key, msg, {'replay': {
                    'module': 'mc.checks.c09_sched', 'func': 'replay',
                    'args': [name, [c[1] for c in choices]]}}))
    st = e2.explore(scenario_for(name), on)
    return name, st, viols, len(outs)


def replay(name, prefix):
    common.setup_imports()
    choices, out = e2.run_one(scenario_for(name), list(prefix))
    return judge(name, out)


def run(tier, seed, result):
    total = 0
    for name, st, viols, n in pmap(job, SCENARIOS):
        total += st['executions']
        if not st['complete']:
            raise common.HarnessError('C09 schedule exploration capped')
        for key, msg, wit in viols:
            result.violation(key, msg, wit)
    result.add('schedules', total)
    result.add('states', total)
    result.add('transitions', total)
    return f'AsyncClient concurrent message tasks (duplicate ACK, ACKs on ' \
           f'two namespaces, two events, ACK vs loss): {total} schedules, ' \
           f'all interleavings'
