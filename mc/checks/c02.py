"""C02 End-to-end payload transparency between client and server handlers
(E4 over the loopback wire)."""
import socketio

from .. import common, enum
from ..par import pmap
from ..refcodec import typed_equal
from ..wire import Wire

LEVEL = 'exploration'
NSS = ['/', '/x']


def leaves(seed):
    strs = common.rotate(['', '1-', 'a"b\\', '\U0001F600', '\u0000', ','],
                         seed)
    return [None, True, 0, -7, 2 ** 63 - 1, 0.1, 1e300, -0.0, strs[0],
            strs[1], b'', b'\x00\xff']


def payloads(N, seed):
    """Top-level values handed to emit / returned by handlers."""
    lf = leaves(seed)
    trees = list(enum.trees_upto(N, lf))
    small = [None, 0, 'x', b'b', [1], {'k': b'v'}]
    out = [None] + trees
    for n in range(0, 4):
        import itertools
        for combo in itertools.product(small, repeat=n):
            out.append(tuple(combo))
    out.append((b'a', [b'b', {'k': b'c'}], 'tail'))
    out.append(([1, [2, [3, [4]]]],))
    return out


def as_args(data):
    """Reference 4.5."""
    if data is None:
        return ()
    if isinstance(data, tuple):
        return tuple(_jsonify(x) for x in data)
    return (_jsonify(data),)


def _jsonify(x):
    """What survives a JSON / msgpack trip: tuples inside become lists."""
    if isinstance(x, tuple):
        return [_jsonify(i) for i in x]
    if isinstance(x, list):
        return [_jsonify(i) for i in x]
    if isinstance(x, dict):
        return {k: _jsonify(v) for k, v in x.items()}
    return x


def call_value(args):
    if len(args) == 0:
        return None
    if len(args) == 1:
        return args[0]
    return tuple(args)


def build(is_async, serializer, framing, kind):
    """kind: 'func' or 'class' handlers on both sides."""
    w = Wire(is_async, serializer, framing,
             server_kwargs={'namespaces': list(NSS)})
    st = {'srv': [], 'cli': [], 'ret': None}
    sio, c = w.sw.sio, w.cw.c

    def on_srv(ns, name, sid, args):
        st['srv'].append((ns, name, args))
        return st['ret']

    def on_cli(ns, name, args):
        st['cli'].append((ns, name, args))
        return st['ret']
    for ns in NSS:
        def mk(ns):
            use_class = kind == 'class' and ns == '/x'
            if is_async:
                async def sev(sid, *a):
                    return on_srv(ns, 'ev', sid, a)

                async def smsg(sid, *a):
                    return on_srv(ns, 'message', sid, a)

                async def cev(*a):
                    return on_cli(ns, 'ev', a)

                async def cmsg(*a):
                    return on_cli(ns, 'message', a)
            else:
                def sev(sid, *a):
                    return on_srv(ns, 'ev', sid, a)

                def smsg(sid, *a):
                    return on_srv(ns, 'message', sid, a)

                def cev(*a):
                    return on_cli(ns, 'ev', a)

                def cmsg(*a):
                    return on_cli(ns, 'message', a)
            if use_class:
                sbase = socketio.AsyncNamespace if is_async else \
                    socketio.Namespace
                cbase = socketio.AsyncClientNamespace if is_async else \
                    socketio.ClientNamespace
                if is_async:
                    class SN(sbase):
                        async def on_ev(self, sid, *a):
                            return on_srv(ns, 'ev', sid, a)

                        async def on_message(self, sid, *a):
                            return on_srv(ns, 'message', sid, a)

                    class CN(cbase):
                        async def on_ev(self, *a):
                            return on_cli(ns, 'ev', a)

                        async def on_message(self, *a):
                            return on_cli(ns, 'message', a)
                else:
                    class SN(sbase):
                        def on_ev(self, sid, *a):
                            return on_srv(ns, 'ev', sid, a)

                        def on_message(self, sid, *a):
                            return on_srv(ns, 'message', sid, a)

                    class CN(cbase):
                        def on_ev(self, *a):
                            return on_cli(ns, 'ev', a)

                        def on_message(self, *a):
                            return on_cli(ns, 'message', a)
                sio.register_namespace(SN(ns))
                c.register_namespace(CN(ns))
            else:
                sio.on('ev', sev, namespace=ns)
                sio.on('message', smsg, namespace=ns)
                c.on('ev', cev, namespace=ns)
                c.on('message', cmsg, namespace=ns)
        mk(ns)
    r = w.connect(list(NSS))
    if r[0] != 'ok':
        raise common.HarnessError(f'wire connect failed: {r}')
    sids = {ns: w.sw.sid_of(w.t, ns) for ns in NSS}
    return w, st, sids


def teq(a, b):
    return typed_equal(a, b)


def one_config(args):
    is_async, serializer, framing, kind, N, seed, part, nparts = args
    common.setup_imports()
    viols = []
    tag = f'{"Async" if is_async else ""}Server+Client/{serializer}/' \
          f'{framing}/{kind}'
    n = 0
    nontrivial = 0

    def bad(key, msg, case):
        if len(viols) < 20:
            viols.append(('C02/' + key, f'{tag}: {msg}', {'replay': {
                'module': 'mc.checks.c02', 'func': 'replay',
                'args': [is_async, serializer, framing, kind,
                         common.jsonable(case)]}}))
    w, st, sids = build(is_async, serializer, framing, kind)
    try:
        data_all = payloads(N, seed)
        data_set = data_all[part::nparts]
        k = 0
        for data in data_set:
            ns = NSS[k % 2]
            k += 1
            for v in run_case(w, st, sids, ('c2s', ns, data, None)):
                bad(*v)
            for v in run_case(w, st, sids, ('s2c', ns, data, None)):
                bad(*v)
            # the same value as a handler return (callback and call())
            for v in run_case(w, st, sids, ('c2s-ack', ns, 1, data)):
                bad(*v)
            for v in run_case(w, st, sids, ('s2c-ack', ns, 1, data)):
                bad(*v)
            n += 4
            if enum.has_bytes(data):
                nontrivial += 1
        if part == 0:
            # order: bursts of 1-3 consecutive messages mixing text and
            # multi-frame binary packets, both directions
            import itertools
            shapes = ['t', [b'1', b'2'], {'k': [b'x', 1]}, 7]
            for ln in (1, 2, 3):
                for combo in itertools.product(range(len(shapes)),
                                               repeat=ln):
                    seq = [shapes[i] for i in combo]
                    for direction in ('c2s', 's2c'):
                        for v in run_case(w, st, sids,
                                          (direction + '-seq', '/x', seq,
                                           None)):
                            bad(*v)
                        n += 1
            for direction in ('c2s', 's2c'):
                for ns in NSS:
                    for v in run_case(w, st, sids,
                                      (direction + '-ack-interleaved', ns,
                                       None, None)):
                        bad(*v)
                    n += 1
            # call() that nobody answers
            for v in run_case(w, st, sids, ('c2s-timeout', '/', 1, None)):
                bad(*v)
            n += 1
    finally:
        w.close()
    return n, nontrivial, viols


def run_case(w, st, sids, case):
    kind, ns, data, ret = case
    out = []

    def bad(key, msg):
        out.append((key, f'{kind} on {ns} data={data!r:.80} ret={ret!r:.60}:'
                    f' {msg}', case))
    del st['srv'][:]
    del st['cli'][:]
    st['ret'] = ret
    if kind == 'c2s':
        for api, name in (('emit', 'ev'), ('send', 'message')):
            del st['srv'][:]
            if api == 'emit':
                r = w.client('emit', 'ev', data, namespace=ns)
            else:
                r = w.client('send', data, namespace=ns)
            want = [(ns, name, as_args(data))]
            if r[0] != 'ok' or not teq(st['srv'], want):
                bad('handler-args', f'{api}: {r!r}; server handler saw '
                    f'{st["srv"]!r}, expected {want!r}')
    elif kind == 's2c':
        for api, name in (('emit', 'ev'), ('send', 'message')):
            del st['cli'][:]
            if api == 'emit':
                r = w.server('emit', 'ev', data, to=sids[ns], namespace=ns)
            else:
                r = w.server('send', data, to=sids[ns], namespace=ns)
            want = [(ns, name, as_args(data))]
            if r[0] != 'ok' or not teq(st['cli'], want):
                bad('handler-args', f'{api}: {r!r}; client handler saw '
                    f'{st["cli"]!r}, expected {want!r}')
    elif kind == 'c2s-ack':
        got = []
        r = w.client('emit', 'ev', data, namespace=ns,
                     callback=lambda *a: got.append(a))
        want = [as_args(ret)]
        if r[0] != 'ok' or not teq(got, want):
            bad('callback-args', f'client callback got {got!r}, expected '
                f'{want!r} ({r!r})')
        r = w.client('call', 'ev', data, namespace=ns, timeout=5)
        wantv = call_value(as_args(ret))
        if r[0] != 'ok' or not teq(r[1], wantv):
            bad('call-result', f'client call() gave {r!r}, expected '
                f'{wantv!r}')
    elif kind == 's2c-ack':
        got = []
        r = w.server('emit', 'ev', data, to=sids[ns], namespace=ns,
                     callback=lambda *a: got.append(a))
        want = [as_args(ret)]
        if r[0] != 'ok' or not teq(got, want):
            bad('callback-args', f'server callback got {got!r}, expected '
                f'{want!r} ({r!r})')
        r = w.server('call', 'ev', data, to=sids[ns], namespace=ns,
                     timeout=5)
        wantv = call_value(as_args(ret))
        if r[0] != 'ok' or not teq(r[1], wantv):
            bad('call-result', f'server call() gave {r!r}, expected '
                f'{wantv!r}')
    elif kind in ('c2s-seq', 's2c-seq'):
        log = st['srv'] if kind == 'c2s-seq' else st['cli']
        for i, d in enumerate(data):
            if kind == 'c2s-seq':
                w.cw.api('emit', 'ev', (i, d), namespace=ns)
            else:
                w.sw.api('emit', 'ev', (i, d), to=sids[ns], namespace=ns)
        w.settle()
        want = [(ns, 'ev', as_args((i, d))) for i, d in enumerate(data)]
        if not teq(list(log), want):
            bad('order', f'handled {list(log)!r}, sent {want!r}')
    elif kind in ('c2s-ack-interleaved', 's2c-ack-interleaved'):
        # three events with callbacks; the acknowledgement of the first
        # arrives while the second is still outstanding, then the third is
        # emitted: every callback must get its own handler's return value
        got = {}
        st['ret'] = 'echo'
        c2s = kind.startswith('c2s')
        back = 's2c' if c2s else 'c2s'

        def emit(tag):
            if c2s:
                return w.cw.api('emit', 'ev', tag, namespace=ns,
                                callback=lambda *a: got.setdefault(
                                    tag, []).append(a))
            return w.sw.api('emit', 'ev', tag, to=sids[ns], namespace=ns,
                            callback=lambda *a: got.setdefault(
                                tag, []).append(a))
        w.hold[back] = True
        emit('A')
        emit('B')
        w.settle()
        w.release(back, 1)
        emit('C')
        w.settle()
        w.hold[back] = False
        w.release(back)
        want = {t: [('echo',)] for t in 'ABC'}
        if not teq(got, want):
            bad('callback-args', f'callbacks got {got!r}, expected {want!r}')
        # the same with the acknowledgements arriving out of order (the
        # second handler finished first)
        got.clear()
        w.hold[back] = True
        emit('A')
        emit('B')
        emit('C')
        w.settle()
        w.release_at(back, 1)
        w.release_at(back, 0)
        w.hold[back] = False
        w.release(back)
        if not teq(got, want):
            bad('callback-args', f'out-of-order acknowledgements: callbacks '
                f'got {got!r}, expected {want!r}')
    elif kind == 'c2s-timeout':
        # an event nobody is responsible for is not acknowledged
        r = w.client('call', 'nobody', data, namespace=ns, timeout=5)
        if r[:2] != ('exc', 'TimeoutError'):
            bad('call-timeout', f'call() gave {r!r}')
    return out


def replay(is_async, serializer, framing, kind, case):
    common.setup_imports()
    case = common.unjson(case)
    w, st, sids = build(is_async, serializer, framing, kind)
    try:
        return [(k, m) for k, m, c in run_case(w, st, sids, tuple(case))]
    finally:
        w.close()


def run(tier, seed, result):
    N = 3 if tier == 'quick' else 4
    nparts = 2 if tier == 'quick' else 8
    jobs = []
    for is_async in (False, True):
        for serializer in ('default', 'msgpack'):
            for framing in ('websocket', 'polling'):
                for kind in ('func', 'class'):
                    for part in range(nparts):
                        jobs.append((is_async, serializer, framing, kind, N,
                                     seed, part, nparts))
    total = 0
    nontrivial = 0
    for n, nt, viols in pmap(job_wrapper, jobs):
        total += n
        nontrivial += nt
        for key, msg, wit in viols:
            result.violation(key, msg, wit)
    result.add('evaluations', total)
    result.add('distinct_nontrivial', nontrivial)
    result.add('payloads', len(payloads(N, seed)))
    result.sample({'direction': 'c2s-ack', 'namespace': '/x',
                   'data': common.jsonable((b'a', [b'b', {'k': b'c'}],
                                            'tail')),
                   'handler_returns': common.jsonable({'k': [b'v', None]})})
    result.assumptions += [
        'integers within 64 bits, string dict keys, tuples only at top '
        'level (msgpack is in the matrix)',
        'the wire passes every engine.io packet through the real engine.io '
        'codec of the framing (WebSocket text/binary frame, or polling '
        'payload with base64) and delivers in order',
        'threaded client: message handler tasks are started in arrival '
        'order and run to completion',
    ]
    return dict(
        rule='every JSON+bytes tree with <= %d nodes over an 11-leaf '
             'alphabet plus tuples of 0-3 small elements, as emit/send data '
             'and as handler return value (callback and call()), both '
             'directions, namespaces / and /x, over {Server+Client, '
             'AsyncServer+AsyncClient} x {default, msgpack} x {WebSocket, '
             'polling/base64 framing} x {function handlers, class-based '
             'namespace}; all bursts of 1-3 consecutive messages over 4 '
             'payload kinds for the order clause; non-trivial = payload '
             'with a bytes leaf' % N,
        explanation='complete enumeration of the stated sets',
        exhaustive=True)


def job_wrapper(args):
    return one_config(args)
