"""C05 Incoming events: one handler invocation, one matching ACK to the
sender only.  E1 over connects / disconnects / binary headers and attachments
delivered as separate operations; at every state every complete event of the
alphabet is sent from every (transport, namespace) and compared with the
ledger."""
import asyncio

import socketio

from .. import common, e1
from ..worlds import ServerWorld

NSS = ['/', '/x']
IDS = [None, 0, 1, 7]
RETS = [None, 5, 'txt', [1, 2], {'a': 1}, (1, 'two'), (), b'byt',
        {'n': [b'x']}, (b'1', 2), 0, '', False, []]
ARGS = [[], [1], ['a', {'k': 2}], [None], [[1, [2]]]]
# binary events delivered frame by frame: name -> (args, n attachments)
BIN = {'b1': ([b'A'], 1), 'b2': ([b'A', {'k': b'B'}], 2),
       'b0': ([1], 0)}


def shape_ack(ret):
    if ret is None:
        return []
    if isinstance(ret, tuple):
        return list(ret)
    return [ret]


class Model:
    def __init__(self, is_async, async_handlers, layout, seed=0, T=2):
        self.is_async = is_async
        self.async_handlers = async_handlers
        self.layout = layout
        self.T = T
        self.rets = common.rotate(RETS, seed)
        self.args = common.rotate(ARGS, seed)

    # -- who is responsible (reference 4.6 restricted to these layouts) ----
    def target(self, ns, name):
        """-> ('fn'|'catch'|'class'|'class-nomethod'|None)"""
        if self.layout == 1:
            if ns == '/':
                return 'fn' if name == 'fn' else None
            return 'class' if name in ('cm', 'fn') else 'class-nomethod'
        else:
            if ns == '/':
                return 'fn' if name == 'fn' else 'catch'
            return 'catch'

    def names(self, ns):
        if self.layout == 1:
            return ['fn', 'zz'] if ns == '/' else ['cm', 'nm', 'fn']
        return ['fn', 'zz'] if ns == '/' else ['zz']

    def initial(self):
        w = ServerWorld(is_async=self.is_async, namespaces=list(NSS),
                        async_handlers=self.async_handlers)
        w.violations = []
        w.script = {'ret': None}
        sio = w.sio
        is_async = self.is_async

        def rec(kind, ns, name, sid, args):
            w.log.append((kind, ns, name, sid, list(args)))
            return w.script['ret']

        def reg(ns, event, kind):
            if is_async:
                if kind == 'fn':
                    async def h(sid, *args):
                        await asyncio.sleep(0)
                        r = rec('fn', ns, event, sid, args)
                        await asyncio.sleep(0)
                        w.log.append(('h-done',))
                        return r
                else:
                    async def h(name, sid, *args):
                        r = rec('catch', ns, name, sid, args)
                        w.log.append(('h-done',))
                        return r
            else:
                if kind == 'fn':
                    def h(sid, *args):
                        r = rec('fn', ns, event, sid, args)
                        w.log.append(('h-done',))
                        return r
                else:
                    def h(name, sid, *args):
                        r = rec('catch', ns, name, sid, args)
                        w.log.append(('h-done',))
                        return r
            sio.on(event, h, namespace=ns)
        reg('/', 'fn', 'fn')
        for b in BIN:
            reg('/', b, 'fn')
        # handlers for unrelated events, next to the class-based namespace
        # and on the catch-all namespace: they must not change who is
        # responsible for the events below, nor their arguments
        if self.layout == 1:
            reg('/x', 'unrelated', 'fn')
            reg('*', 'unrelated2', 'fn')
        if self.layout == 1:
            base = socketio.AsyncNamespace if is_async else \
                socketio.Namespace
            if is_async:
                class NS(base):
                    async def on_cm(self, sid, *args):
                        r = rec('class', '/x', 'cm', sid, args)
                        w.log.append(('h-done',))
                        return r

                    def on_fn(self, sid, *args):      # plain def on purpose
                        r = rec('class', '/x', 'fn', sid, args)
                        w.log.append(('h-done',))
                        return r
            else:
                class NS(base):
                    def on_cm(self, sid, *args):
                        r = rec('class', '/x', 'cm', sid, args)
                        w.log.append(('h-done',))
                        return r

                    def on_fn(self, sid, *args):
                        r = rec('class', '/x', 'fn', sid, args)
                        w.log.append(('h-done',))
                        return r
            for b in BIN:
                def mk(b):
                    if is_async:
                        async def m(self, sid, *args):
                            r = rec('class', '/x', b, sid, args)
                            w.log.append(('h-done',))
                            return r
                    else:
                        def m(self, sid, *args):
                            r = rec('class', '/x', b, sid, args)
                            w.log.append(('h-done',))
                            return r
                    return m
                setattr(NS, 'on_' + b, mk(b))
            sio.register_namespace(NS('/x'))
        else:
            reg('/', '*', 'catch')
            reg('/x', '*', 'catch')
        for _ in range(self.T):
            w.new_transport()
        w.slot = list(range(self.T))
        w.conn = {}
        w.pending = {}     # slot -> [ns, name, id, retidx, frames left]
        w.drain_all()
        return w

    def close(self, w):
        w.close()

    def ops(self, w):
        ops = []
        for s in range(self.T):
            if s in w.pending:
                ops.append(('att', s))
                ops.append(('loss', s))
                continue
            ops.append(('loss', s))
            for ns in NSS:
                if (s, ns) not in w.conn:
                    ops.append(('connect', s, ns))
                else:
                    ops.append(('cdisc', s, ns))
                    ops.append(('ev+cdisc', s, ns))
                    ops.append(('ev-ack-write-fails', s, ns))
                    for b in ('b1', 'b2'):
                        ops.append(('hdr', s, ns, b, 1, 7))
                    ops.append(('hdr', s, ns, 'b2', 0, 9))
        return ops

    def _bad(self, w, key, msg):
        w.violations.append(('C05/' + key, msg))

    def _expect_dispatch(self, w, s, ns, name, id, args, ret, what,
                         kindname=None):
        """Compare handler log and frames after a complete event from
        (slot s, ns) with the ledger."""
        n = w.namer.norm
        log = [e for e in w.take_log() if e != ('h-done',)]
        frames = {i: [f for f in w.drain(w.slot[i]) if f[0] != 'eio']
                  for i in range(self.T)}
        sid = w.conn.get((s, ns))
        tgt = self.target(ns, name) if sid is not None else None
        if name in BIN and sid is not None:
            tgt = {1: {'/': 'fn', '/x': 'class'},
                   2: {'/': 'fn', '/x': 'catch'}}[self.layout][ns]
        exp_log = []
        if tgt in ('fn', 'class'):
            exp_log = [(tgt, ns, name, n(sid), list(args))]
        elif tgt == 'catch':
            exp_log = [('catch', ns, name, n(sid), list(args))]
        if log != exp_log:
            self._bad(w, 'handler', f'{what}: handler log {log!r}, expected '
                      f'{exp_log!r}')
        exp_frames = []
        if tgt is not None and id is not None:
            data = shape_ack(ret) if tgt != 'class-nomethod' else []
            ptype = 6 if _has_bytes(data) else 3
            exp_frames = [('pkt', ptype, ns, id, data)]
        for i in range(self.T):
            want = exp_frames if i == s else []
            if frames[i] != want:
                self._bad(w, 'ack' if i == s else 'ack-misdirected',
                          f'{what}: slot {i} got {frames[i]!r}, expected '
                          f'{want!r}')

    def apply(self, w, op):
        kind = op[0]
        if kind == 'connect':
            _, s, ns = op
            w.recv_packet(w.slot[s], 0, ns)
            sid = w.sid_of(w.slot[s], ns)
            if sid is None:
                self._bad(w, 'connect', f'{op} not accepted')
            else:
                w.conn[(s, ns)] = sid
        elif kind == 'cdisc':
            _, s, ns = op
            w.recv_packet(w.slot[s], 1, ns)
            w.conn.pop((s, ns), None)
        elif kind == 'ev+cdisc':
            # an event immediately followed by the client's DISCONNECT: the
            # client was connected when the event arrived, so it is handled
            # and acknowledged even if the handler task only runs afterwards
            _, s, ns = op
            t = w.slot[s]
            name = 'fn' if (ns == '/' or self.layout == 1) else 'zz'
            w.script['ret'] = 'late'
            ev = w.encode(2, ns, 9, [name, 1])[0]
            dis = w.encode(1, ns)[0]
            from engineio import packet as eio_packet
            sock = w.transports[t]
            if w.is_async:
                async def both():
                    await sock.receive(eio_packet.Packet(
                        eio_packet.MESSAGE, ev))
                    await sock.receive(eio_packet.Packet(
                        eio_packet.MESSAGE, dis))
                w.run(both)
            else:
                w.hold_tasks = True
                w.recv(t, ev)
                w.recv(t, dis)
                w.hold_tasks = False
                w.run_tasks()
            self._expect_dispatch(w, s, ns, name, 9, [1], 'late',
                                  f'{op}: event then DISCONNECT')
            w.conn.pop((s, ns), None)
        elif kind == 'ev-ack-write-fails':
            # fault: the transport write of the ACK raises once.  The
            # handler has run once; afterwards this client and every other
            # one are served as before (the probe that follows checks it)
            _, s, ns = op
            name = 'fn' if (ns == '/' or self.layout == 1) else 'zz'
            w.script['ret'] = 'r'
            real = w.sio.eio.send
            state = {'n': 0}
            if w.is_async:
                async def send(*a, **k):
                    state['n'] += 1
                    if state['n'] == 1:
                        raise OSError('scripted transport write fault')
                    return await real(*a, **k)
            else:
                def send(*a, **k):
                    state['n'] += 1
                    if state['n'] == 1:
                        raise OSError('scripted transport write fault')
                    return real(*a, **k)
            w.sio.eio.send = send
            try:
                w.recv_packet(w.slot[s], 2, ns, 9, [name, 1])
            finally:
                w.sio.eio.send = real
            del w.task_errors[:]
            if w.is_async:
                w.loop.collect_errors()
            log = [e for e in w.take_log() if e != ('h-done',)]
            if len(log) != 1 or state['n'] != 1:
                self._bad(w, 'handler', f'{op}: handler log {log!r}, '
                          f'{state["n"]} transport writes')
        elif kind == 'loss':
            _, s = op
            w.lose(w.slot[s])
            for ns in NSS:
                w.conn.pop((s, ns), None)
            w.pending.pop(s, None)
            w.slot[s] = w.new_transport()
        elif kind == 'hdr':
            _, s, ns, name, reti, id = op
            args, natt = BIN[name]
            frames = w.encode(2, ns, id, [name] + args)
            r = w.recv(w.slot[s], frames[0])
            if r[0] == 'exc':
                self._bad(w, 'exception', f'{op} raised {r[1:]}')
            w.pending[s] = [ns, name, id, reti, frames[1:]]
            log = w.take_log()
            if log:
                self._bad(w, 'early-dispatch', f'{op}: handler ran before '
                          f'the attachments arrived: {log!r}')
        elif kind == 'att':
            _, s = op
            ns, name, id, reti, left = w.pending[s]
            w.script['ret'] = self.rets[reti]
            bg0 = getattr(w, 'bg_started', 0)
            r = w.recv(w.slot[s], left.pop(0))
            if r[0] == 'exc':
                self._bad(w, 'exception', f'{op} raised {r[1:]}')
            if left:
                log = w.take_log()
                if log:
                    self._bad(w, 'early-dispatch', f'{op}: {log!r}')
            else:
                del w.pending[s]
                self._expect_dispatch(w, s, ns, name, id, BIN[name][0],
                                      self.rets[reti], f'{op} completing '
                                      f'{name} on {ns}')
        w.drain_all()
        w.take_log()

    def future(self, w):
        return e1.drain_future(self, w, [('loss', s)
                                         for s in range(self.T)])

    def canon(self, w):
        conn = tuple(sorted(w.conn))
        pend = tuple(sorted((s, p[0], p[1], len(p[4]))
                            for s, p in w.pending.items()))
        snap = w.snapshot()
        # only live transports' partial packets (entries left behind by dead
        # transports are C11's business and cannot influence live ones)
        live = {w.eio_sid(t) for t in w.slot}
        from ..introspect import server_partial_packets
        nbin = sum(1 for k in server_partial_packets(w.sio) if k in live)
        return (conn, pend, nbin, repr(snap['pending']))

    def probe(self, w):
        """Every complete text event from every (slot, namespace) that has no
        binary packet in flight."""
        k = 0
        obs = 0
        for s in range(self.T):
            if s in w.pending:
                continue
            for ns in NSS:
                for name in self.names(ns):
                    for id in IDS:
                        for ri, ret in enumerate(self.rets):
                            # argument shapes rotate with the other
                            # dimensions (each shape meets each id/name)
                            args = self.args[k % len(self.args)]
                            k += 1
                            if ri >= 4 and id is None:
                                continue     # return value unobservable
                            self._one_event(w, s, ns, name, id, args, ret)
                            obs += 1
                # the zero-attachment binary event (reference parser
                # dispatches it at once)
                if (s, ns) in w.conn:
                    self._zero_att(w, s, ns)
        w.obs_key = obs

    def _one_event(self, w, s, ns, name, id, args, ret):
        w.script['ret'] = ret
        bg0 = getattr(w, 'bg_started', 0)
        mark = len(w.log)
        t = w.slot[s]
        sock = w.transports[t]
        from engineio import packet as eio_packet
        frames = w.encode(2, ns, id, [name] + list(args))
        what = f'event {name}{args!r} id={id} ret={ret!r} from slot {s} ' \
               f'on {ns}'
        if w.is_async and not self.async_handlers:
            async def rx():
                await sock.receive(eio_packet.Packet(eio_packet.MESSAGE,
                                                     frames[0]))
                w.log.append(('rx-done',))
            w.run(rx)
            lg = list(w.log)
            if ('h-done',) in lg and ('rx-done',) in lg and \
                    lg.index(('rx-done',)) < lg.index(('h-done',)):
                self._bad(w, 'order', f'{what}: message processing returned '
                          'before the handler finished although '
                          'async_handlers is off')
            w.log[:] = [e for e in w.log if e != ('rx-done',)]
        else:
            r = w.recv(t, frames[0])
            if r[0] == 'exc':
                self._bad(w, 'exception', f'{what} raised {r[1:]}')
        if not w.is_async and not self.async_handlers and \
                getattr(w, 'bg_started', 0) != bg0:
            self._bad(w, 'order', f'{what}: handler was moved to a '
                      'background task although async_handlers is off')
        self._expect_dispatch(w, s, ns, name, id, args, ret, what)

    def _zero_att(self, w, s, ns):
        # '50-' + header: BINARY_EVENT announcing zero attachments
        name = 'b0'
        w.script['ret'] = 'z'
        nsp = '' if ns == '/' else ns + ','
        frame = f'50-{nsp}3["{name}",1]'
        r = w.recv(w.slot[s], frame)
        what = f'zero-attachment binary event from slot {s} on {ns}'
        log = [e for e in w.log if e != ('h-done',)]
        if not log:
            # not dispatched: the packet is parked; feed it what it waits
            # for so that the exploration can continue, and report
            w.take_log()
            w.drain_all()
            self._bad(w, 'zero-attachments', f'{what}: not dispatched '
                      '(parked waiting for an attachment that was never '
                      'announced)')
            from ..introspect import server_partial_packets
            server_partial_packets(w.sio).pop(w.eio_sid(w.slot[s]), None)
            return
        self._expect_dispatch(w, s, ns, name, 3, [1], 'z', what)


def _has_bytes(x):
    from ..enum import has_bytes
    return has_bytes(x)


def factory(**params):
    return Model(**params)


e1.register('c05', factory)


def run(tier, seed, result):
    notes = []
    closure = True
    for is_async in (False, True):
        for ah in (False, True):
            for layout in (1, 2):
                depth = 30
                # thorough: the larger scope, then the small scope again
                # with the "every transport is lost" look-ahead as part of
                # the state identity (e1.drain_future)
                for T, fut in ([(2, False)] if tier == 'quick'
                               else [(3, False), (2, True)]):
                    params = dict(is_async=is_async, async_handlers=ah,
                                  layout=layout, seed=seed, T=T)
                    st = e1.explore('c05', params, result, max_depth=depth,
                                    use_future=fut)
                    closure = closure and st['closure']
                    notes.append('async=%s ah=%s layout=%d T=%d look-ahead='
                                 '%s: %s' % (is_async, ah, layout, T, fut,
                                             st))
    from . import c05_sched
    notes.append(c05_sched.run(tier, seed, result))
    from . import c05_threads
    notes.append(c05_threads.run(tier, seed, result))
    result.assumptions += [
        'background handler tasks are run to completion (FIFO) before '
        'comparison',
        'argument shapes rotate across the (name, id, return) product '
        'instead of being crossed with it',
    ]
    return dict(
        rule='BFS over connect/disconnect/loss/binary header/attachment '
             'operations (2 transports x 2 namespaces; attachments are '
             'separate operations so other clients interleave); at every '
             'state every text event (names x ids {None,0,1,7} x 14 return '
             'values) is sent from every (transport, namespace), connected '
             'or not, and handler log + ACK frames on ALL transports are '
             'compared with the ledger; E2: every interleaving of two '
             'clients\' packet streams with suspended disconnect / event '
             'handlers on AsyncServer',
        explanation=' | '.join(notes) + (
            '' if closure else ' | depth cap hit: all histories up to the '
            'cap were covered'),
        exhaustive=closure)
