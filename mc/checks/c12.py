"""C12 Hostile input from one client cannot touch other clients or stop the
server.  E4 offender frames x every insertion position of a bystander
script, differential against the run without the offender."""
import itertools

from .. import app, common, enum
from ..par import pmap
from ..worlds import ServerWorld
from .c11 import graph_size
from ..introspect import callbacks_of, server_partial_packets

LEVEL = 'fault_enumeration'

VALID = ['0', '0/x,', '0{"a":1}', '1', '1/x,', '2["ev",1]', '2/x,["ev"]',
         '21["ret"]', '31["r"]', '3/x,1[]',
         '51-["ev",{"_placeholder":true,"num":0}]',
         '61-1[{"_placeholder":true,"num":0}]', '4{"message":"m"}']
PUNCT = '-,/?"[]{}:'
UNI = ['٣', '²']


def text_offenders(tier):
    out = []
    seen = set()

    def add(x):
        if x not in seen:
            seen.add(x)
            out.append(x)
    for v in VALID:
        for i in range(len(v) + 1):
            add(v[:i])                                   # truncation
        for i in range(len(v)):
            add(v[:i] + v[i + 1:])                       # deletion
            add(v[:i] + v[i] + v[i:])                    # duplication
            for c in PUNCT:
                add(v[:i] + c + v[i + 1:])               # misplaced syntax
            if v[i].isdigit():
                for u in UNI:
                    add(v[:i] + u + v[i + 1:])           # unicode digits
    for n in (1, 10, 11, 100, 101):
        run = '9' * n
        add('2' + run + '["ev"]')                        # id digit runs
        add('3' + run + '[]')
        add('5' + run + '-["ev"]')                       # attachment counts
        add('2/x,' + run + '["ev"]')
        add('5' + '1' + '0' * (n - 1) + '-/x,1["ev"]')
    add('51000000000-["ev",1]')                          # 10**9 attachments
    for depth in (50, 2000, 200000):
        add('2' + '[' * depth + ']' * depth)             # deep nesting
        add('2["ev",' + '{"a":' * depth + '1' + '}' * depth + ']')
    for p in ('{"a":1}', '"str"', '5', 'null', 'true', '[]', '[1]', '[null]',
              '[["x"]]', '[{"a":1}]', '[true,1]', '[1.5]', '["connect"]',
              '["disconnect"]', '["ev"'):
        for t in ('2', '3', '21', '31', '2/x,', '0', '1', '4'):
            add(t + p)
    for num in ('-1', '1', '5', '1e3', '1.0', '"0"', 'null', '[0]', 'true',
                '{}', '99999999999999999999'):
        add('51-["ev",{"_placeholder":true,"num":%s}]' % num)
        add('61-1[{"_placeholder":true,"num":%s}]' % num)
    add('51-["ev",{"_placeholder":true}]')
    add('51-["ev",{"_placeholder":1,"num":0,"x":2}]')
    add('52-["ev",{"_placeholder":true,"num":0}]')
    for t in '456789':
        add(t)
        add(t + '["ev"]')
        add(t + '/x,["ev"]')
    for f in ('0/nope,', '2/nope,["ev"]', '1/nope,', '3/nope,1[]',
              '0/nope?x=1,', '2/x?q,["ev"]', '0/x?token=1,{"a":1}'):
        add(f)
    L = 3 if tier == 'quick' else 4
    for s in enum.strings_upto('0125-/,["a]{', L):
        add(s)
    return out


def binary_offenders(tier):
    out = [b'', b'\x00', b'abc', b'4', b'\xff\xfe']
    if tier != 'quick':
        out += [bytes([a]) for a in range(256)]
    return out


def msgpack_offenders(tier):
    import msgpack
    out = []
    types = [0, 1, 2, 3, 4, 5, 6, 7, -1, 'x', None, [], 2.0, True]
    nsps = ['/', '/x', '/nope', 5, None, '', ['/']]
    ids = ['<missing>', 1, 0, 'x', [1], 0.0, 10 ** 30, None, -1]
    datas = ['<missing>', [], ['ev'], ['ev', 1], 'str', 5, {'a': 1}, [5],
             [None], [['x']], ['ret'], None]
    seen = set()

    def add(b):
        if b not in seen:
            seen.add(b)
            out.append(b)
    base = {'type': 2, 'nsp': '/', 'data': ['ev', 1]}
    for t in types:
        add(msgpack.dumps(dict(base, type=t)))
    for n in nsps:
        add(msgpack.dumps(dict(base, nsp=n)))
        add(msgpack.dumps({'type': 0, 'nsp': n}))
        add(msgpack.dumps({'type': 1, 'nsp': n}))
    for i in ids:
        for t in (2, 3):
            d = dict(base, type=t)
            if i != '<missing>':
                d['id'] = i
            try:
                add(msgpack.dumps(d))
            except Exception:
                pass
    for dt in datas:
        for t in (0, 2, 3, 4):
            d = {'type': t, 'nsp': '/', 'id': 1}
            if dt != '<missing>':
                d['data'] = dt
            add(msgpack.dumps(d))
    for k in ('type', 'nsp'):
        d = dict(base)
        del d[k]
        add(msgpack.dumps(d))
    for t in (0, 1, 2, 3):
        # every packet kind without the namespace field
        add(msgpack.dumps({'type': t, 'data': ['ev', 1] if t > 1 else None,
                           'id': 1}))
        add(msgpack.dumps({'type': t}))
    add(msgpack.dumps(5))
    add(msgpack.dumps([1, 2]))
    add(msgpack.dumps('str'))
    add(msgpack.dumps(None))
    good = msgpack.dumps(dict(base, id=1))
    for i in range(len(good)):
        add(good[:i])                                   # truncated buffers
    add(good + b'\x00')                                 # trailing bytes
    add(good + good)
    add(b'\xdd\xff\xff\xff\xff')                        # length-lying array
    add(b'\xdf\xff\xff\xff\xff')                        # length-lying map
    add(b'\xc6\xff\xff\xff\xff' + b'x')                 # length-lying bin
    add(b'\x83\xa4type\x02\xa3nsp\xa1/\xa4data\xdd\xff\xff\xff\xff')
    add('2["ev"]')                                      # a text frame
    add('')
    if tier != 'quick':
        for a in range(256):
            add(bytes([a]))
    return out


# -- the bystander script ------------------------------------------------

def build_world(is_async, serializer):
    w = ServerWorld(is_async=is_async, serializer=serializer,
                    namespaces=['/', '/x'], async_handlers=False)
    app.install(w, 'func', ['/', '/x'], events=('ev', 'ret'))
    w.script['returns'] = {'ret': ['pong', 1]}
    w.cblog = []
    w.O = w.new_transport()
    w.B1 = w.new_transport()
    w.B2 = w.new_transport()
    w.recv_packet(w.O, 0, '/')
    w.o_sids = {w.sid_of(w.O, '/')}
    return w


def step_list():
    def s_connect(w):
        w.recv_packet(w.B1, 0, '/')
        w.recv_packet(w.B2, 0, '/x', None, {'tok': 1})
        w.recv_packet(w.B2, 0, '/')

    def s_room(w):
        w.api('enter_room', w.sid_of(w.B1, '/'), 'r')

    def s_event(w):
        w.recv_packet(w.B1, 2, '/', 7, ['ret', 'ping'])

    def s_emitcb(w):
        sid = w.sid_of(w.B1, '/')
        if sid is not None:
            w.api('emit', 'q', 1, to=sid,
                  callback=lambda *a: w.cblog.append(('cb', a)))

    def s_broadcast(w):
        w.api('emit', 'news', {'n': 1}, to='r')
        w.api('emit', 'all', 2, namespace='/x')

    def s_binhdr(w):
        frames = w.encode(2, '/x', 3, ['ev', b'A', {'k': b'B'}])
        w.b2_frames = frames
        w.recv(w.B2, frames[0])

    def s_ack(w):
        w.recv_packet(w.B1, 3, '/', 1, ['done'])

    def s_session(w):
        sid = w.sid_of(w.B2, '/x')
        if sid is not None:
            w.api('save_session', sid, {'user': 'b2'}, namespace='/x')

    def s_binrest(w):
        for f in getattr(w, 'b2_frames', [None])[1:]:
            w.recv(w.B2, f)

    def s_end(w):
        w.recv_packet(w.B1, 1, '/')
        w.api('emit', 'bye', 3)
    return [s_connect, s_room, s_event, s_emitcb, s_broadcast, s_binhdr,
            s_ack, s_session, s_binrest, s_end]


def observe(w):
    """What the bystanders can observe (plus their server-side state)."""
    n = w.namer.norm
    roles = w.__dict__.setdefault('roles', {})
    for t, tn in ((w.B1, 'B1'), (w.B2, 'B2')):
        roles[n(w.eio_sid(t))] = tn
        for ns in ('/', '/x'):
            sid = w.sid_of(t, ns)
            if sid is not None:
                roles[n(sid)] = tn + ns
    obs = {
        'frames': [w.drain(w.B1), w.drain(w.B2)],
        'log': [e for e in w.take_log()
                if not any(s is not None and n(s) in repr(e)
                           for s in w.o_sids)],
        'cb': list(w.cblog),
    }
    state = {}
    m = w.sio.manager
    for t in (w.B1, w.B2):
        for ns in ('/', '/x'):
            sid = w.sid_of(t, ns)
            if sid is None:
                continue
            sess = w.api('get_session', sid, namespace=ns)
            state[(t, ns)] = (sorted(map(str, w.sio.rooms(sid, ns))) ==
                              sorted([str(sid)] +
                                     (['r'] if (t, ns) == (w.B1, '/') and
                                      'r' in w.sio.rooms(sid, ns) else [])),
                              sorted(roles.get(r, r) for r in
                                     map(str, n(w.sio.rooms(sid, ns)))),
                              repr(n(sess)),
                              sorted(callbacks_of(m).get(sid, {})))
    obs['state'] = state
    return _rename(obs, roles)


def _rename(x, roles):
    if isinstance(x, str):
        return roles.get(x, x)
    if isinstance(x, list):
        return [_rename(i, roles) for i in x]
    if isinstance(x, tuple):
        return tuple(_rename(i, roles) for i in x)
    if isinstance(x, dict):
        return {_rename(k, roles): _rename(v, roles) for k, v in x.items()}
    return x


def run_script(is_async, serializer, offender, pos):
    """offender: list of frames inserted before script step `pos` (None =
    baseline).  Returns (trace, offender_report)."""
    w = build_world(is_async, serializer)
    steps = step_list()
    trace = []
    report = {}
    w.drain_all()
    w.take_log()
    for i, st in enumerate(steps + [None]):
        if offender is not None and i == pos:
            size0 = graph_size(w.sio)
            from .. import refcodec
            pend = None       # [reference-decoded header, attachments]
            for f in offender:
                # does the decoder itself reject it?
                undecodable = False
                owed = w.eio_sid(w.O) in server_partial_packets(w.sio)
                if not owed:
                    try:
                        w.sio.packet_class(encoded_packet=f)
                    except Exception:
                        undecodable = True
                if serializer == 'msgpack' and not undecodable:
                    # the msgpack parser of the reference implementation
                    # requires the namespace field (a string); a map
                    # without it is not a packet
                    try:
                        import msgpack
                        m = msgpack.loads(f) if isinstance(
                            f, (bytes, bytearray)) else None
                        if isinstance(m, dict) and 'type' in m and \
                                'nsp' not in m:
                            undecodable = True
                    except Exception:
                        pass
                # the reference codec's view of a binary packet in flight:
                # completed by this frame and not reconstructible?
                if serializer == 'default':
                    if owed and pend is not None:
                        pend[1].append(f)
                        if len(pend[1]) == pend[0][4]:
                            try:
                                if not all(isinstance(a, bytes)
                                           for a in pend[1]):
                                    raise refcodec.Reject('text attachment')
                                refcodec.reconstruct(pend[0][3], pend[1])
                            except refcodec.Reject:
                                undecodable = True
                            pend = None
                    elif not owed and isinstance(f, str):
                        try:
                            hdr = refcodec.ref_decode(f)
                            pend = [hdr, []] if hdr[0] in (5, 6) and \
                                hdr[4] > 0 else None
                        except refcodec.Reject:
                            pend = None
                log0 = len(w.log)
                w.drain(w.O)
                w.recv(w.O, f)
                for ns in ('/', '/x', '/nope'):
                    w.o_sids.add(w.sid_of(w.O, ns))
                if undecodable:
                    newlog = w.log[log0:]
                    out = [x for x in w.drain(w.O) if x[0] != 'eio'] + \
                        [x for t in (w.B1, w.B2) for x in
                         w.transports[t].queue.queue
                         ] if False else \
                        [x for x in w.drain(w.O) if x[0] != 'eio']
                    if newlog or out:
                        report['undecodable-reached'] = (
                            f'frame {f!r} cannot be decoded, yet handlers '
                            f'{w.namer.norm(newlog)!r} ran / output {out!r}')
            growth = graph_size(w.sio) - size0
            total = sum(len(f) for f in offender)
            if growth > 60 + 2 * total:
                report['resources'] = (
                    f'{growth} container slots reserved for {total} bytes '
                    f'received ({offender!r:.80})')
            # events the offender legitimately triggered for itself are not
            # part of the bystanders' view
            w.drain(w.O)
        if st is None:
            break
        st(w)
        trace.append(observe(w))
    if w.task_errors:
        report['task-error'] = repr(w.task_errors)
    w.close()
    return trace, report


def diff_traces(base, got):
    for i, (a, b) in enumerate(zip(base, got)):
        for k in ('frames', 'log', 'cb', 'state'):
            if a[k] != b[k]:
                return i, k, a[k], b[k]
    return None


KEYMAP = {'frames': 'bystander-frames', 'log': 'bystander-handlers',
          'cb': 'bystander-callback', 'state': 'bystander-state'}


def job(args):
    is_async, serializer, offenders, positions = args
    common.setup_imports()
    base, _ = run_script(is_async, serializer, None, None)
    viols = []
    n = 0
    nontrivial = 0
    for off in offenders:
        for pos in positions:
            n += 1
            trace, report = run_script(is_async, serializer, off, pos)
            d = diff_traces(base, trace)
            tag = f'{"Async" if is_async else ""}Server/{serializer}'
            wit = {'replay': {'module': 'mc.checks.c12', 'func': 'replay',
                              'args': [is_async, serializer,
                                       common.jsonable(off), pos]}}
            if d is not None:
                i, k, a, b = d
                viols.append(('C12/' + KEYMAP[k],
                              f'{tag}: offender {off!r:.120} before step '
                              f'{pos} changed what bystanders see at step '
                              f'{i}: {k} {b!r:.300} instead of {a!r:.300}',
                              wit))
            for k, msg in report.items():
                viols.append(('C12/' + k, f'{tag}: {msg}', wit))
            if len(viols) > 30:
                return n, nontrivial, viols
            if any(len(f) > 1 for f in off):
                nontrivial += 1
    return n, nontrivial, viols


def replay(is_async, serializer, off, pos):
    common.setup_imports()
    off = common.unjson(off)
    base, _ = run_script(is_async, serializer, None, None)
    trace, report = run_script(is_async, serializer, off, pos)
    out = []
    d = diff_traces(base, trace)
    if d is not None:
        out.append(('C12/' + KEYMAP[d[1]], f'step {d[0]}: {d[3]!r:.300} '
                    f'instead of {d[2]!r:.300}'))
    for k, msg in report.items():
        out.append(('C12/' + k, msg))
    return out


def run(tier, seed, result):
    text = text_offenders(tier)
    binary = binary_offenders(tier)
    mp = msgpack_offenders(tier)
    nsteps = len(step_list())
    all_pos = list(range(nsteps + 1))
    some_pos = [0, 1, 4, 6, 9] if tier == 'quick' else all_pos
    jobs = []
    for is_async in (False, True):
        singles = [[f] for f in text + binary]
        for chunk in _chunks(singles, 400):
            jobs.append((is_async, 'default', chunk, some_pos))
        # representative pairs / triples, contiguous
        rep = common.rotate([
            '51-["ev",{"_placeholder":true,"num":0}]', '2["ev",1]', b'abc',
            '1', '0', '31["r"]', '9', '2["ev"', '61-1[]', '0/x,',
            '51000000000-["ev",1]', '2' + '9' * 100 + '["ev"]', '',
            '51-["ev",{"_placeholder":true,"num":3}]',
            '51-["ev",{"_placeholder":true,"num":-1}]',
            '51-["ev",{"_placeholder":true,"num":"0"}]',
            '52-["ev",{"_placeholder":true,"num":3}]', b'', '21["ret"]'],
            seed)
        k = 2 if tier == 'quick' else 3
        seqs = [list(p) for r in range(2, k + 1)
                for p in itertools.product(rep, repeat=r)]
        pos_seq = [1, 5, 6] if tier == 'quick' else [1, 5, 6, 8]
        # multi-attachment packets with a text frame in every slot, with
        # too few / too many frames (needs >= 3 offender frames)
        h2 = '52-["ev",{"_placeholder":true,"num":0},' \
             '{"_placeholder":true,"num":1}]'
        h3 = '53-7["ev",{"_placeholder":true,"num":2},' \
             '[{"_placeholder":true,"num":0}],{"_placeholder":true,"num":1}]'
        fr = ['2["ev",1]', b'A', b'B', '1', b'']
        for hdr, n in ((h2, 2), (h3, 3)):
            for combo in itertools.product(fr, repeat=n):
                seqs.append([hdr] + list(combo))
                seqs.append([hdr] + list(combo) + [b'extra'])
            for combo in itertools.product(fr, repeat=n + 1):
                if sum(isinstance(x, str) for x in combo) == 1:
                    seqs.append([hdr] + list(combo))
        # complete binary packets (all announced attachments delivered)
        # whose placeholders carry every kind of bad index
        for num in ('-1', '1', '2', '5', '1e3', '1.0', '0.0', '"0"', 'null',
                    '[0]', 'true', 'false', '{}', '99999999999999999999'):
            ph = '{"_placeholder":true,"num":%s}' % num
            ok0 = '{"_placeholder":true,"num":0}'
            seqs.append(['51-["ev",%s]' % ph, b'X'])
            seqs.append(['52-["ev",%s,%s]' % (ph, ok0), b'X', b'Y'])
            seqs.append(['52-["ev",%s,{"k":[%s]}]' % (ok0, ph), b'X', b'Y'])
            seqs.append(['61-1[%s]' % ph, b'X'])
        for chunk in _chunks(seqs, 150):
            jobs.append((is_async, 'default', chunk, pos_seq))
        for chunk in _chunks([[f] for f in mp], 100):
            jobs.append((is_async, 'msgpack', chunk, some_pos))
        mrep = mp[:6] + mp[-12:]
        mseqs = [list(p) for p in itertools.product(mrep, repeat=2)]
        for chunk in _chunks(mseqs, 100):
            jobs.append((is_async, 'msgpack', chunk, pos_seq))
    total = 0
    nontrivial = 0
    for n, nt, viols in pmap(job, jobs):
        total += n
        nontrivial += nt
        for key, msg, wit in viols:
            result.violation(key, msg, wit)
    result.add('evaluations', total)
    result.add('distinct_nontrivial', nontrivial)
    result.add('text_frames', len(text))
    result.add('msgpack_frames', len(mp))
    result.sample({'offender': ['51-["ev",{"_placeholder":true,"num":5}]',
                                'bytes:616263'], 'inserted_before_step': 5})
    result.sample({'offender': [common.jsonable(mp[40])], 'serializer':
                   'msgpack', 'inserted_before_step': 1})
    result.assumptions += [
        'engine.io contains exceptions raised by the message handler '
        '(trusted dependency)',
        'the offender is one client on "/" whose own connection may become '
        'unusable (outside the claim)',
        'resource clause: container slots reachable from the server may '
        'grow by at most 60 + 2 x bytes received',
    ]
    return dict(
        rule='offender frames = grammar mutations of 13 valid frame shapes '
             '(every truncation/deletion/duplication/misplaced syntax '
             'character/unicode digit), digit runs 1..101, deep nesting, '
             'wrong payload types, placeholder abuse, stray binary, unknown '
             'types/namespaces, ALL strings up to length %d over 12 syntax '
             'characters, msgpack maps with wrong-typed/missing fields and '
             'truncated/length-lying buffers; each inserted before %s steps '
             'of a 10-step two-bystander script (pairs/triples of 16 '
             'representatives contiguously); both servers, both serializers; '
             'non-trivial = offender frame longer than 1 character'
             % (3 if tier == 'quick' else 4,
                'selected' if tier == 'quick' else 'all'),
        explanation='complete enumeration of the stated sets; bystander '
                    'observations compared step by step with the '
                    'offender-free run',
        exhaustive=True)


def _chunks(seq, n):
    for i in range(0, len(seq), n):
        yield seq[i:i + n]
