"""C08 part 2 (E2): the end of an AsyncClient's connection while disconnect
handlers are suspended, including cancellation of the task that tears the
connection down.

AsyncClient connected to '/' and '/a' with coroutine disconnect handlers
(current signature and the legacy one without `reason`), suspended at entry.
Actors: transport loss, optionally the cancellation of the loss task.  Every
interleaving; afterwards the client must be fully disconnected: the handler
of every namespace was entered exactly once, no namespace, flag, callback or
half-received packet is left, emit raises BadNamespaceError.
"""
from .. import common, e2
from ..cworld import ClientWorld
from ..introspect import callbacks_of, client_partial_packet
from ..par import pmap

VARIANTS = [('legacy', 'modern'), ('modern', 'legacy'), ('modern', 'modern')]
ACTORS = [('loss',), ('loss', 'cancel-loss')]


def scenario_for(variant, actors):
    def scenario(loop):
        loop.setup = True
        w = ClientWorld(is_async=True, loop=loop, reconnection=False)
        c = w.c
        entered = []

        def mk(ns, style):
            if style == 'legacy':
                async def d():
                    entered.append(ns)
                    await loop.point('dh' + ns)
            else:
                async def d(reason):
                    entered.append(ns)
                    await loop.point('dh' + ns)
            c.on('disconnect', d, namespace=ns)
        mk('/', variant[0])
        mk('/a', variant[1])
        r = w.connect(script=[['0{"sid":"s1"}'], ['0/a,{"sid":"s2"}']],
                      namespaces=['/', '/a'])
        if r[0] != 'ok':
            raise common.HarnessError(f'connect failed {r}')
        w.run(c.emit, 'q', 1, callback=lambda *a: None)
        w.deliver('51-["ev",{"_placeholder":true,"num":0}]')
        w.take_outbox()
        loop.setup = False
        tasks = {}

        async def actor(kind):
            await loop.point('start:' + kind)
            if kind == 'cancel-loss':
                tasks['loss'].cancel()
                return
            eio = w.eio
            if eio.state == 'connected':
                await eio._trigger_event('disconnect',
                                         eio.reason.TRANSPORT_ERROR,
                                         run_async=False)
                await eio._reset()
        for a in actors:
            tasks[a] = loop.create_task(actor(a))

        def finish(hit):
            parked = [lb for lb, f in loop.parked if not f.done()]
            loop.collect_errors()
            started = bool(entered) or not c.connected
            loop.setup = True
            r = w.run(c.emit, 'x', 1)
            return {'stuck': hit or bool(parked), 'parked': parked,
                    'entered': sorted(entered), 'started': started,
                    'connected': c.connected,
                    'namespaces': sorted(c.namespaces),
                    'callbacks': {k: sorted(v) for k, v in
                                  callbacks_of(c).items() if v},
                    'partial': client_partial_packet(c) is not None,
                    'emit': r[:2], 'sent': w.take_outbox()}
        return finish
    return scenario


def judge(variant, actors, out):
    what = f'handlers {variant}, actors {actors}'
    if out['stuck']:
        return [('C08/sched-stuck', f'{what}: {out}')]
    if not out['started']:
        return []        # the loss was cancelled before it began
    v = []
    if out['entered'] != ['/', '/a']:
        v.append(('C08/sched-disconnect-handler', f'{what}: disconnect '
                  f'handlers entered for {out["entered"]}, expected once '
                  f'for each of "/" and "/a"'))
    left = {k: out[k] for k in ('connected', 'namespaces', 'callbacks',
                                'partial') if out[k]}
    if left:
        v.append(('C08/sched-residue', f'{what}: after the connection '
                  f'ended the client still has {left}'))
    if out['emit'] != ('exc', 'BadNamespaceError') or out['sent']:
        v.append(('C08/sched-emit-after-end', f'{what}: emit gave '
                  f'{out["emit"]} and sent {out["sent"]}'))
    return v


def job(args):
    vi, ai = args
    common.setup_imports()
    viols = []

    def on(choices, out):
        for key, msg in judge(VARIANTS[vi], ACTORS[ai], out):
            if len(viols) < 3:
                viols.append((key, msg, {'replay': {
                    'module': 'mc.checks.c08_sched', 'func': 'replay',
                    'args': [vi, ai, [c[1] for c in choices]]}}))
    st = e2.explore(scenario_for(VARIANTS[vi], ACTORS[ai]), on)
    return st, viols


def replay(vi, ai, prefix):
    common.setup_imports()
    choices, out = e2.run_one(scenario_for(VARIANTS[vi], ACTORS[ai]),
                              list(prefix))
    return judge(VARIANTS[vi], ACTORS[ai], out)


def run(tier, seed, result):
    jobs = [(vi, ai) for vi in range(len(VARIANTS))
            for ai in range(len(ACTORS))]
    total = 0
    for st, viols in pmap(job, jobs):
        total += st['executions']
        if not st['complete']:
            raise common.HarnessError('C08 schedule exploration capped')
        for key, msg, wit in viols:
            result.violation(key, msg, wit)
    result.add('schedules', total)
    return f'E2: end of an AsyncClient connection with suspended ' \
           f'disconnect handlers (legacy / current signature) and ' \
           f'cancellation of the tear-down task: {total} schedules'
