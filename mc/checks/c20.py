"""C20 Threaded server: concurrent terminations of one client are safe (E3).

One transport connected to '/' and '/x'.  Two or three of {server.disconnect
(sid), client DISCONNECT, transport loss, server.disconnect(sibling)} run as
real threads under the baton scheduler with a scheduling point before every
call the server makes into the client manager or the transport layer and
inside the application handler (quick); thorough adds line-level points in
server.py / base_manager.py / manager.py with a preemption bound.
"""
import itertools

from .. import common, threads
from ..par import pmap
from ..worlds import ServerWorld, eio_packet

CAUSES = ['sdisc', 'cdisc', 'loss', 'sib']
TRACE_FILES = ('socketio/server.py', 'socketio/base_manager.py',
               'socketio/manager.py')


class PointProxy:
    """Forwards everything; every *call* is preceded by a scheduling point
    and recorded with its result."""

    def __init__(self, target, sched, name, calls, points=True):
        object.__setattr__(self, '_p', points)
        object.__setattr__(self, '_t', target)
        object.__setattr__(self, '_s', sched)
        object.__setattr__(self, '_n', name)
        object.__setattr__(self, '_c', calls)

    def __getattr__(self, attr):
        v = getattr(self._t, attr)
        if callable(v) and not attr.startswith('_') and \
                attr not in ('logger',):
            sched, name, calls, points = self._s, self._n, self._c, self._p

            def wrapped(*a, **k):
                if points:
                    sched.point('%s.%s' % (name, attr))
                me = sched.me()
                try:
                    r = v(*a, **k)
                except BaseException as e:
                    calls.append((me.name if me else 'ctl', name, attr, a,
                                  'raised ' + type(e).__name__))
                    raise
                calls.append((me.name if me else 'ctl', name, attr, a, r))
                return r
            return wrapped
        return v

    def __setattr__(self, attr, value):
        setattr(self._t, attr, value)


def scenario_for(causes, line_level=False, pubsub=False):
    def scenario(sched):
        mgr = None
        if pubsub:
            # the threaded server on a pub/sub manager (single host; the
            # channel is a list nobody else reads)
            from ..cluster import Hub, make_manager
            mgr = make_manager(False, Hub(), 'H0')
        w = ServerWorld(is_async=False, namespaces=['/', '/x'], manager=mgr)
        sio = w.sio
        log = w.log

        xsid = [None]

        @sio.on('disconnect')
        def d(sid, reason):
            log.append(('disconnect', '/', sid, reason))
            sched.point('handler')
            if sid == xsid[0]:
                raise RuntimeError('scripted fault in the disconnect '
                                   'handler of another client')

        @sio.on('disconnect', namespace='/x')
        def dx(sid, reason):
            log.append(('disconnect', '/x', sid, reason))
            sched.point('handler/x')
        t = w.new_transport()
        w.recv_packet(t, 0, '/')
        w.recv_packet(t, 0, '/x')
        sock = w.transports[t]
        sid = w.sid_of(t, '/')
        sidx = w.sid_of(t, '/x')
        xsock = None
        if 'xloss' in causes:
            # another client of '/', whose disconnect handler raises
            tx = w.new_transport()
            w.recv_packet(tx, 0, '/')
            xsock = w.transports[tx]
            xsid[0] = w.sid_of(tx, '/')
        w.drain_all()
        calls = []
        real_manager, real_eio = sio.manager, sio.eio
        sio.manager = PointProxy(real_manager, sched, 'manager', calls,
                                 points=not line_level)
        sio.eio = PointProxy(real_eio, sched, 'eio', calls,
                             points=not line_level)

        def cause(name):
            sched.point('start:' + name)
            if name == 'sdisc':
                sio.disconnect(sid)
            elif name == 'cdisc':
                sock.receive(eio_packet.Packet(eio_packet.MESSAGE, '1'))
            elif name == 'loss':
                sock.close(wait=False, abort=True, reason='transport close')
            elif name == 'sib':
                sio.disconnect(sidx, namespace='/x')
            elif name == 'xloss':
                xsock.close(wait=False, abort=True,
                            reason='transport close')
        for i, c in enumerate(causes):
            sched.spawn(cause, c, name='%s#%d' % (c, i))

        def finish(status):
            n = w.namer.norm
            sio.manager, sio.eio = real_manager, real_eio
            snap = w.snapshot()
            return {
                'status': status,
                'log': [n(e) for e in log if e[2] != xsid[0]],
                'excs': [(t.name, type(t.exc).__name__, str(t.exc))
                         for t in sched.threads if t.exc is not None
                         and not t.name.startswith('xloss')],
                'task_errors': list(w.task_errors),
                'snap': snap,
                'sid': n(sid), 'sidx': n(sidx),
                'connected': (real_manager.is_connected(sid, '/'),
                              real_manager.is_connected(sidx, '/x')),
                'calls': [(c[0], c[2], n(c[3]), c[4] if isinstance(
                    c[4], (bool, str, type(None))) else n(c[4]))
                    for c in calls if c[1] == 'manager'],
            }
        return finish
    return scenario


def classify(out, sidname):
    """Cause classifier: which window made the terminators overlap."""
    calls = out['calls']
    gates = [(i, c[0]) for i, c in enumerate(calls)
             if c[1] in ('is_connected', 'can_disconnect') and c[3] is True
             and sidname in repr(c[2])]
    marks = [(i, c[0]) for i, c in enumerate(calls)
             if c[1] == 'pre_disconnect' and sidname in repr(c[2])]
    for gi, gt in gates:
        if any(mi < gi and mt != gt for mi, mt in marks):
            return 'gate-passed-after-mark'
    first_mark = marks[0][0] if marks else len(calls)
    early = [g for g in gates if g[0] < first_mark]
    if len({g[1] for g in early}) >= 2:
        # what did the first thread through the gate do next?
        g0i, g0t = early[0]
        nxt = [c[1] for c in calls[g0i + 1:] if c[0] == g0t]
        return 'check-then-mark/next=' + (nxt[0] if nxt else 'none')
    return 'other'


def judge(causes, out):
    v = []
    sid, sidx = out['sid'], out['sidx']
    if out['status'] != 'done':
        return [('C20/stuck', f'execution ended {out["status"]}: {out}')]
    main_causes = [c for c in causes if c not in ('sib', 'xloss')]
    sib_causes = [c for c in causes if c in ('sib', 'loss')]
    for name, s, cs in (('main', sid, main_causes),
                        ('sibling', sidx, sib_causes)):
        n = sum(1 for e in out['log'] if e[2] == s)
        cls = classify(out, s)
        if cs and n != 1:
            v.append((f'C20/handler-count={n}/{cls}',
                      f'disconnect handler ran {n} times for the {name} sid '
                      f'under {causes}: {out["log"]}'))
        if not cs and n:
            v.append(('C20/sibling-affected', f'{name} namespace ended by '
                      f'{causes}: {out["log"]}'))
        if cs and s in repr(out['snap']):
            v.append((f'C20/residue/{cls}',
                      f'{name} sid left in {out["snap"]} under {causes}'))
    if out['excs'] or out['task_errors']:
        cls = classify(out, sid)
        if cls == 'other':
            cls = classify(out, sidx)
        kinds = sorted({e[1] for e in out['excs']})
        v.append((f'C20/thread-exception:{",".join(kinds)}/{cls}',
                  f'exception escaped a terminating thread under {causes}: '
                  f'{out["excs"]} {out["task_errors"]}'))
    if out['snap']['pending']:
        who = sidx if sidx in repr(out['snap']['pending']) else sid
        v.append((f'C20/residue/{classify(out, who)}',
                  f'pending_disconnect not empty: {out["snap"]}'))
    if 'loss' in causes and out['snap']['environ']:
        v.append((f'C20/residue-environ/{classify(out, sid)}',
                  f'environ kept after loss: {out["snap"]}'))
    return v


def job(args):
    causes, line_level, bound, max_execs = args[:4]
    pubsub = len(args) > 4 and args[4]
    common.setup_imports()
    viols = []
    outcomes = set()
    sample = []

    def on(choices, out):
        outcomes.add(repr((sorted(out['log']), out['excs'])))
        if not sample:
            sample.append([c[2] for c in choices][:12])
        for key, msg in judge(causes, out):
            if len(viols) < 40:
                viols.append((key, msg, {'replay': {
                    'module': 'mc.checks.c20', 'func': 'replay',
                    'args': [list(causes), line_level,
                             [c[1] for c in choices], pubsub]}}))
    st = threads.explore(scenario_for(causes, line_level, pubsub), on,
                         bound=bound,
                         max_execs=max_execs,
                         trace_files=TRACE_FILES if line_level else ())
    return causes, line_level, st, viols, len(outcomes), sample


def replay(causes, line_level, prefix, pubsub=False):
    common.setup_imports()
    choices, out = threads.run_one(
        scenario_for(tuple(causes), line_level, pubsub), list(prefix),
        trace_files=TRACE_FILES if line_level else ())
    return judge(tuple(causes), out)


def run(tier, seed, result):
    jobs = []
    for causes in itertools.combinations_with_replacement(CAUSES, 2):
        jobs.append((causes, False, 3 if tier == 'quick' else None, None))
    # the same pairs on a pub/sub client manager
    for causes in itertools.combinations_with_replacement(CAUSES[:3], 2):
        jobs.append((causes, False, 2 if tier == 'quick' else None, None,
                     True))
    if tier == 'thorough':
        for causes in itertools.combinations(CAUSES, 3):
            jobs.append((causes, False, 3, 60000))
        for pair in (('sdisc', 'cdisc'), ('sdisc', 'loss'),
                     ('cdisc', 'cdisc')):
            jobs.append((pair + ('xloss',), False, 3, 60000))
        for causes in itertools.combinations(CAUSES, 2):
            jobs.append((causes, True, 2, 60000))
    else:
        jobs.append((('sdisc', 'cdisc', 'loss'), False, 1, 4000))
        # a third party: another client of the namespace is lost and its
        # disconnect handler raises while two actions end the main client
        jobs.append((('sdisc', 'cdisc', 'xloss'), False, 2, 6000))
        jobs.append((('sdisc', 'loss'), True, 1, 3000))
    total = 0
    notes = []
    complete = True
    for causes, ll, st, viols, nout, sample in pmap(job, jobs):
        total += st['executions']
        result.add('distinct_outcomes', nout)
        if not st['complete']:
            complete = False
            notes.append(f'{causes} line_level={ll}: capped at '
                         f'{st["executions"]} executions')
        elif st['preemption_bound'] is not None:
            notes.append(f'{causes} line_level={ll}: all schedules with <= '
                         f'{st["preemption_bound"]} preemptions '
                         f'({st["executions"]})')
        seen = set()
        for key, msg, wit in viols:
            if key not in seen:
                seen.add(key)
                result.violation(key, msg, wit)
        if sample and len(causes) == 2 and not ll:
            result.sample({'causes': list(causes), 'schedule': sample[0]})
    result.add('states', total)
    result.add('transitions', total)
    result.add('schedules', total)
    result.assumptions += [
        'scheduling points: before every call the server makes into the '
        'client manager and the transport layer, at thread start and inside '
        'the disconnect handler (call level); every line of server.py, '
        'base_manager.py, manager.py (line level)',
        'the GIL makes single bytecodes atomic; preemption inside bidict C '
        'code is not modelled',
    ]
    return dict(
        rule='all interleavings (call-level points) of every pair of '
             'terminating causes incl. the same cause twice; triples and '
             'line-level pairs under a preemption bound; distinct outcomes = '
             '(handler log, escaped exceptions)',
        explanation='; '.join(notes) or 'all pair schedules explored',
        exhaustive=complete)
