"""C06 Server-initiated acks: callback at most once, only for the right
client and id.  E1 with an ack ledger; call() under E2 (asyncio) and E3
(threads) with all orders of {ACK, timeout, disconnect}."""
from .. import common, e1
from ..introspect import callbacks_of
from ..worlds import ServerWorld

NSS = ['/', '/x']
ACK_ARGS = [[], ['r'], ['r', 2], [b'bin'], [{'k': [b'x', 1]}, None]]


class Model:
    def __init__(self, is_async, cap, T=2, coro_cb=False, seed=0,
                 always_connect=False, refusals=True):
        self.always_connect = always_connect
        self.refusals = refusals
        self.is_async = is_async
        self.cap = cap
        self.T = T
        self.coro_cb = coro_cb
        self.ack_args = common.rotate(ACK_ARGS, seed)

    def initial(self):
        w = ServerWorld(is_async=self.is_async, namespaces=list(NSS),
                        always_connect=self.always_connect)
        w.violations = []
        w.refuse = None
        model = self
        for ns in NSS:
            def mk(ns):
                if self.is_async:
                    async def c(sid, environ):
                        if w.refuse is not None:
                            await w.sio.emit(
                                'q', {'n': w.refuse}, to=sid, namespace=ns,
                                callback=model._callback(w, w.refuse))
                            return False
                else:
                    def c(sid, environ):
                        if w.refuse is not None:
                            w.sio.emit(
                                'q', {'n': w.refuse}, to=sid, namespace=ns,
                                callback=model._callback(w, w.refuse))
                            return False
                w.sio.on('connect', c, namespace=ns)
            mk(ns)
        for _ in range(self.T):
            w.new_transport()
        w.slot = list(range(self.T))
        w.conn = {}           # (slot, ns) -> sid
        w.emitted = {}        # (slot, ns) -> count of emits for current sid
        w.out = {}            # (slot, ns) -> {id: callback number}
        w.used = {}           # (slot, ns) -> set of ids already acknowledged
        w.acked = {}          # same, but only by the live connection
        w.ncb = 0
        w.refused = 0
        w.fired = {}          # callback number -> list of arg tuples
        w.drain_all()
        return w

    def close(self, w):
        w.close()

    def _cap(self, s, ns):
        # one client connection goes deep, the others stay shallow (they
        # exist to have equal ids outstanding elsewhere)
        if (s, ns) == (0, '/'):
            return self.cap
        if (s, ns) == (self.T - 1, NSS[-1]):
            return 0
        return 1

    def _all_ids(self, w):
        ids = set()
        for d in w.out.values():
            ids |= set(d)
        for d in w.used.values():
            ids |= d
        top = max(ids) if ids else 0
        return sorted(ids | {0, top + 1})

    def ops(self, w):
        ops = []
        ids = self._all_ids(w)
        for s in range(self.T):
            ops.append(('loss', s))
            for ns in NSS:
                if (s, ns) not in w.conn:
                    ops.append(('connect', s, ns))
                    if s == 0 and w.refused < 1 and self.refusals:
                        ops.append(('connect-emit-refuse', s, ns))
                else:
                    ops.append(('cdisc', s, ns))
                    ops.append(('sdisc', s, ns))
                    if w.emitted.get((s, ns), 0) < self._cap(s, ns):
                        ops.append(('emitcb', s, ns))
                # ACKs may come from any transport on any namespace,
                # connected or not
                for i, id in enumerate(ids):
                    ops.append(('ack', s, ns, id, i % len(self.ack_args)))
        return ops

    def _bad(self, w, key, msg):
        w.violations.append(('C06/' + key, msg))

    def _drop(self, w, s, ns):
        w.conn.pop((s, ns), None)
        w.emitted.pop((s, ns), None)
        w.out.pop((s, ns), None)
        w.used.pop((s, ns), None)
        w.acked.pop((s, ns), None)

    def _callback(self, w, k):
        if self.coro_cb and self.is_async:
            async def cb(*args):
                w.fired.setdefault(k, []).append(args)
        else:
            def cb(*args):
                w.fired.setdefault(k, []).append(args)
        return cb

    NOOP_KEY = 'C06/ack-side-effect'

    def future(self, w):
        """The next emit-with-callback to every live connection and what
        its acknowledgement does (destructive; throw-away world)."""
        obs = []
        fired = []
        for (s, ns), sid in sorted(w.conn.items()):
            w.drain_all()
            r = w.api('emit', 'fq', 1, to=sid, namespace=ns,
                      callback=lambda *a, k=(s, ns): fired.append((k, a)))
            frames = [f for f in w.drain(w.slot[s]) if f[0] == 'pkt']
            ids = [f[3] for f in frames]
            obs.append((s, ns, r[0], tuple(ids),
                        tuple(i in w.out.get((s, ns), {}) for i in ids),
                        tuple(i in w.acked.get((s, ns), ()) for i in ids)))
            for i in ids:
                if isinstance(i, int):
                    w.recv_packet(w.slot[s], 3, ns, i, ['fz'])
        obs.append(tuple(fired))
        w.task_errors.clear()
        return tuple(obs)

    def apply(self, w, op):
        kind = op[0]
        w.expect_noop = False
        if kind == 'connect':
            _, s, ns = op
            w.recv_packet(w.slot[s], 0, ns)
            sid = w.sid_of(w.slot[s], ns)
            if sid is None:
                self._bad(w, 'connect', f'{op} not accepted')
            else:
                w.conn[(s, ns)] = sid
        elif kind == 'connect-emit-refuse':
            # the connect handler emits to the new sid with a callback and
            # then refuses the connection: that callback must never fire
            _, s, ns = op
            w.ncb += 1
            w.refused += 1
            w.refuse = w.ncb
            w.drain_all()
            w.recv_packet(w.slot[s], 0, ns)
            w.refuse = None
            frames = [f for f in w.drain(w.slot[s]) if f[0] == 'pkt']
            ids = [f[3] for f in frames if f[1] == 2 and f[3] is not None]
            if w.sid_of(w.slot[s], ns) is not None and \
                    w.sio.manager.is_connected(w.sid_of(w.slot[s], ns), ns):
                self._bad(w, 'refused-connected', f'{op}: refused client is '
                          'connected')
            for id in ids:
                # remembered as a "used" id of this transport/namespace so
                # that later ACK operations try it
                w.used.setdefault((s, ns), set()).add(id)
        elif kind == 'cdisc':
            _, s, ns = op
            w.recv_packet(w.slot[s], 1, ns)
            self._drop(w, s, ns)
        elif kind == 'sdisc':
            _, s, ns = op
            w.api('disconnect', w.conn[(s, ns)], namespace=ns)
            self._drop(w, s, ns)
        elif kind == 'loss':
            _, s = op
            w.lose(w.slot[s])
            for ns in NSS:
                self._drop(w, s, ns)
            w.slot[s] = w.new_transport()
        elif kind == 'emitcb':
            _, s, ns = op
            w.ncb += 1
            k = w.ncb
            w.drain_all()
            r = w.api('emit', 'q', {'n': k}, to=w.conn[(s, ns)],
                      namespace=ns, callback=self._callback(w, k))
            if r[0] == 'exc':
                self._bad(w, 'emit-exception', f'{op} raised {r[1:]}')
                return
            w.emitted[(s, ns)] = w.emitted.get((s, ns), 0) + 1
            frames = [f for f in w.drain(w.slot[s]) if f[0] != 'eio']
            others = [f for i in range(self.T) if i != s
                      for f in w.drain(w.slot[i]) if f[0] != 'eio']
            if others:
                self._bad(w, 'misdirected', f'{op}: {others!r}')
            if len(frames) != 1 or frames[0][:3] != ('pkt', 2, ns) or \
                    frames[0][4] != ['q', {'n': k}] or \
                    not isinstance(frames[0][3], int):
                self._bad(w, 'emit-frame', f'{op}: frames {frames!r}')
                return
            id = frames[0][3]
            out = w.out.setdefault((s, ns), {})
            if id in out:
                self._bad(w, 'id-not-unique', f'{op}: id {id} is still '
                          f'outstanding for this client ({sorted(out)})')
            out[id] = k
        elif kind == 'ack':
            _, s, ns, id, ai = op
            args = self.ack_args[ai]
            before = self.canon(w)
            fired0 = {k: list(v) for k, v in w.fired.items()}
            r = w.recv_packet(w.slot[s], 3, ns, id, args)
            new = {k: v[len(fired0.get(k, [])):] for k, v in w.fired.items()
                   if len(v) > len(fired0.get(k, []))}
            out = w.out.get((s, ns), {})
            what = f'ACK id={id} args={args!r} from slot {s} on {ns}'
            if any(x[0] == 'exc' for x in r):
                self._bad(w, 'ack-exception', f'{what}: raised {r!r}')
            if w.task_errors:
                self._bad(w, 'ack-exception', f'{what}: {w.task_errors!r}')
                w.task_errors.clear()
            if id in w.acked.get((s, ns), ()):
                # a repeated ACK of this connection: ignored, whatever the
                # id table says now
                w.expect_noop = True
                if new:
                    self._bad(w, 'repeated-ack-fired', f'{what}: id {id} '
                              f'was acknowledged before by this connection, '
                              f'yet fired {new!r}')
                if id not in out and self.canon(w) != before:
                    self._bad(w, 'ack-side-effect',
                              f'{what}: repeated ACK changed the state')
            elif id in out:
                k = out.pop(id)
                w.used.setdefault((s, ns), set()).add(id)
                w.acked.setdefault((s, ns), set()).add(id)
                if new != {k: [tuple(args)]}:
                    self._bad(w, 'callback', f'{what}: expected callback '
                              f'#{k}{tuple(args)!r} once, got {new!r}')
            else:
                if new:
                    self._bad(w, 'spurious-callback',
                              f'{what}: nothing outstanding under that id '
                              f'for this client, yet fired {new!r}')
                after = self.canon(w)
                w.expect_noop = True
                if after != before:
                    self._bad(w, 'ack-side-effect',
                              f'{what}: unknown id changed the state: '
                              f'{before!r} -> {after!r}')
            fr = [f for x in w.drain_all() for f in x if f[0] != 'eio']
            if fr:
                self._bad(w, 'ack-answered', f'{what}: frames {fr!r}')
        w.drain_all()
        w.take_log()

    def canon(self, w):
        st = []
        m = w.sio.manager
        for s in range(self.T):
            for ns in NSS:
                sid = w.conn.get((s, ns))
                if sid is None:
                    st.append(None)
                    continue
                real = (getattr(m, 'callbacks', None) or {}).get(sid, {})
                st.append((w.emitted.get((s, ns), 0),
                           tuple(sorted(w.out.get((s, ns), {}))),
                           tuple(sorted(repr(k) for k in real))))
        live = set(w.conn.values())
        stale = sorted(w.namer.norm(k) for k in callbacks_of(m)
                       if k not in live and callbacks_of(m)[k])
        return (tuple(st), tuple(stale), w.refused,
                tuple(sorted((k, tuple(sorted(v)))
                             for k, v in w.used.items()
                             if k not in w.conn and v)))

    def probe(self, w):
        # ledger vs manager: outstanding ids per live sid
        m = w.sio.manager
        for (s, ns), sid in w.conn.items():
            real = sorted(callbacks_of(m).get(sid, {}))
            want = sorted(w.out.get((s, ns), {}))
            if real != want:
                self._bad(w, 'ledger', f'slot {s} {ns}: manager has '
                          f'outstanding {real}, ledger {want}')
        # every callback fired at most once overall
        for k, calls in w.fired.items():
            if len(calls) > 1:
                self._bad(w, 'fired-twice', f'callback #{k} fired '
                          f'{len(calls)} times')


def factory(**params):
    return Model(**params)


e1.register('c06', factory)


def run(tier, seed, result):
    from . import c06_call
    notes = []
    closure = True
    cap = 3 if tier == 'quick' else 4
    depth = 40
    for is_async, coro, ac in ((False, False, False), (True, False, False),
                               (True, True, False), (False, False, True),
                               (True, False, True)):
        params = dict(is_async=is_async, cap=cap if not ac else 1,
                      coro_cb=coro, seed=seed, always_connect=ac,
                      refusals=ac or not is_async)
        st = e1.explore('c06', params, result, max_depth=depth)
        closure = closure and st['closure']
        notes.append(f'async={is_async} coro_cb={coro} always_connect={ac}: '
                     f'{st}')
    notes.append(c06_call.run(tier, seed, result))
    from . import c06_sched
    notes.append(c06_sched.run(tier, seed, result))
    from . import c06_ack_threads
    notes.append(c06_ack_threads.run(tier, seed, result, 'server'))
    result.assumptions += [
        f'at most {cap} emits-with-callback per connection of one client, 1 '
        'for the others, 0 for the last (bounds the id counters)',
        'callbacks on emits addressed to several clients are excluded '
        '(documented as unsupported)',
    ]
    return dict(
        rule='BFS over connect/disconnect/loss/emit-with-callback/ACK where '
             'every ACK id in (all outstanding or used ids of any client) + '
             '{0, max+1} is sent from every transport on every namespace; '
             'distinct = canonical (connections, outstanding ids, raw '
             'callback-table keys)',
        explanation=' | '.join(notes) + (
            '' if closure else ' | depth cap reached before closure: all '
            f'histories up to depth {depth} covered'),
        exhaustive=closure)
