"""C07 Multi-host pub/sub: a cluster behaves like one server holding all
clients.  E1 differential: the same operation is applied to a cluster of
real servers joined by a pickled FIFO channel and to one real server with a
plain manager; in immediate mode (every host drains after every operation)
the per-client observations must be identical; in delayed mode
(c07_delayed.py) at-most-once / eligibility / exactness are checked."""
from .. import common, e1
from ..cluster import Cluster
from ..worlds import ServerWorld

ROOM = 'r'


def install_handlers(w):
    sio = w.sio
    for ns in ('/', '/x'):
        def mk(ns):
            if w.is_async:
                async def d(sid, reason):
                    w.log.append(('disconnect', ns, sid, reason))
            else:
                def d(sid, reason):
                    w.log.append(('disconnect', ns, sid, reason))
            sio.on('disconnect', d, namespace=ns)
        mk(ns)


class Side:
    """Uniform view of 'the system': either the cluster or the single
    reference server."""

    def __init__(self, is_async, placement, single):
        self.single = single
        self.placement = placement
        if single:
            self.ref = ServerWorld(is_async=is_async,
                                   namespaces=['/', '/x'])
            install_handlers(self.ref)
            self.worlds = [self.ref]
        else:
            self.cluster = Cluster(is_async, max(placement) + 1,
                                   setup=install_handlers,
                                   namespaces=['/', '/x'])
            self.worlds = self.cluster.hosts
        self.t = {}          # client -> (world, transport index)
        self.sids = {}       # (client, ns) -> sid
        self.names = {}      # sid -> 'c0/'
        self.cb = []         # callback log
        self.out_ids = {}    # (client, ns) -> [event ids awaiting ACK]
        self.last_acked = {}  # (client, ns) -> id of the latest ACK sent
        for c, h in enumerate(placement):
            w = self.world_of(c)
            self.t[c] = w.new_transport()

    def world_of(self, c):
        return self.worlds[0] if self.single else \
            self.worlds[self.placement[c]]

    def via(self, h):
        """The server object an API call is issued on."""
        return self.worlds[0] if self.single else self.worlds[h]

    def settle(self):
        if not self.single:
            self.cluster.drain()

    def norm(self, x):
        if isinstance(x, str):
            return self.names.get(x, x)
        if isinstance(x, (list, tuple)):
            return type(x)(self.norm(i) for i in x)
        if isinstance(x, dict):
            return {self.norm(k): self.norm(v) for k, v in x.items()}
        return x

    # -- operations ----------------------------------------------------------
    def connect(self, c, ns):
        w = self.world_of(c)
        w.recv_packet(self.t[c], 0, ns)
        sid = w.sid_of(self.t[c], ns)
        if sid is not None:
            self.sids[(c, ns)] = sid
            self.names[sid] = 'c%d%s' % (c, ns)
            self.names[w.namer.norm(sid)] = 'c%d%s' % (c, ns)
        self.settle()

    def cdisc(self, c, ns):
        self.world_of(c).recv_packet(self.t[c], 1, ns)
        self.sids.pop((c, ns), None)
        self.out_ids.pop((c, ns), None)
        self.last_acked.pop((c, ns), None)
        self.settle()

    def loss(self, c):
        w = self.world_of(c)
        w.lose(self.t[c])
        for ns in ('/', '/x'):
            self.sids.pop((c, ns), None)
            self.out_ids.pop((c, ns), None)
            self.last_acked.pop((c, ns), None)
        self.t[c] = w.new_transport()
        self.settle()

    def api(self, h, name, *args, **kwargs):
        r = self.via(h).api(name, *args, **kwargs)
        self.settle()
        return r if r[0] == 'exc' else ('ok',)

    def back_to_back(self, h, calls):
        """Several API calls issued one right after the other by the same
        task/thread on host h (no other activity in between); the channel
        is drained afterwards."""
        w = self.via(h)
        if w.is_async:
            async def seq():
                for name, args, kwargs in calls:
                    await getattr(w.sio, name)(*args, **kwargs)
            r = w.run(seq)
        else:
            r = ('ok', None)
            for name, args, kwargs in calls:
                r = w.api(name, *args, **kwargs)
                if r[0] == 'exc':
                    break
        self.settle()
        return r if r[0] == 'exc' else ('ok',)

    def writer_emit(self, *args, **kwargs):
        if self.single:
            r = self.ref.api('emit', *args, **kwargs)
        else:
            args = list(args)
            event = args.pop(0)
            data = args.pop(0) if args else kwargs.pop('data', None)
            ns = kwargs.pop('namespace', None)
            r = self.cluster.writer_call('emit', event, data, ns,
                                         room=kwargs.pop('to', None),
                                         **kwargs)
        self.settle()
        return r if r[0] == 'exc' else ('ok',)

    def ack(self, c, ns, which=0, empty=False):
        ids = self.out_ids.get((c, ns))
        if not ids:
            return
        id = ids.pop(which)
        self.last_acked[(c, ns)] = id
        # empty: an acknowledgement without arguments (3<id>[])
        self.world_of(c).recv_packet(self.t[c], 3, ns, id,
                                     [] if empty else ['ack', c])
        self.settle()

    def reack(self, c, ns):
        """The client repeats its most recent ACK (retransmission)."""
        id = self.last_acked.get((c, ns))
        if id is None:
            return
        self.world_of(c).recv_packet(self.t[c], 3, ns, id, ['again', c])
        self.settle()

    # -- observation ---------------------------------------------------------
    def observe(self):
        """Per-client frames (event ids replaced, remembered for ACKs),
        handler log, callback log."""
        frames = {}
        for c in self.t:
            w = self.world_of(c)
            fs = []
            for f in w.drain(self.t[c]):
                if f[0] != 'pkt':
                    continue
                f = self.norm(f)
                if f[1] in (2, 5) and f[3] is not None:
                    self.out_ids.setdefault((c, f[2]), []).append(f[3])
                    ids = self.out_ids[(c, f[2])]
                    if len(set(ids)) != len(ids):
                        fs.append(('duplicate-ack-id', ids))
                    f = f[:3] + ('ID',) + f[4:]
                fs.append(f)
            frames[c] = fs
        log = []
        for w in self.worlds:
            log += [self.norm(e) for e in w.take_log()]
        cb, self.cb = self.cb, []
        rooms = {}
        for (c, ns), sid in self.sids.items():
            w = self.world_of(c)
            rooms['c%d%s' % (c, ns)] = sorted(
                str(self.norm(r)) for r in w.sio.rooms(sid, ns))
        return {'frames': frames, 'log': sorted(log), 'cb': cb,
                'rooms': rooms}

    def close(self):
        if self.single:
            self.ref.close()
        else:
            self.cluster.close()


class Model:
    def __init__(self, is_async, placement, pairs, seed=0, maxcb=2,
                 cbpairs=None, sidroom=False):
        self.sidroom = sidroom
        self.maxcb = maxcb
        self.cbpairs = cbpairs
        self.is_async = is_async
        self.placement = tuple(placement)
        self.pairs = [tuple(p) for p in pairs]
        self.nh = max(placement) + 1

    def _maxcb(self, c, ns):
        if self.cbpairs is None or [c, ns] in self.cbpairs or \
                (c, ns) in self.cbpairs:
            return self.maxcb
        return 0

    def initial(self):
        class W:
            pass
        w = W()
        w.violations = []
        w.A = Side(self.is_async, self.placement, single=False)
        w.B = Side(self.is_async, self.placement, single=True)
        w.conn = set()
        w.member = set()        # (c, ns) in ROOM
        w.sidmember = set()     # (c, ns) in the room named after c0's sid
        w.pendcb = {}           # (c, ns) -> issuing host
        w.acked = set()         # (c, ns) whose connection has ACKed something
        w.ncb = 0
        self.compare(w, 'initial')
        return w

    def close(self, w):
        w.A.close()
        w.B.close()

    def ops(self, w):
        ops = []
        hosts = range(self.nh)
        for (c, ns) in self.pairs:
            if (c, ns) not in w.conn:
                ops.append(('connect', c, ns))
            else:
                ops.append(('cdisc', c, ns))
                for h in hosts:
                    ops.append(('sdisc', c, ns, h))
                    if (c, ns) in w.member:
                        ops.append(('leave', c, ns, h))
                        ops.append(('emit+leave', c, ns, h))
                    else:
                        ops.append(('enter', c, ns, h))
                    if self.sidroom and c != 0 and ns == '/' and \
                            (0, '/') in w.conn:
                        ops.append(('enter-sid0' if (c, ns) not in w.sidmember
                                    else 'leave-sid0', c, ns, h))
                    if len(w.pendcb.get((c, ns), ())) < self._maxcb(c, ns):
                        ops.append(('emitcb', c, ns, h))
                        if h == self.placement[c] and not (
                                c == 0 and ns == '/' and w.sidmember):
                            # issued on the client's own host with
                            # ignore_queue=True (no pub/sub round trip);
                            # not while clients of other hosts sit in the
                            # room named after this sid: ignore_queue means
                            # "this host only"
                            ops.append(('emitcb', c, ns, h, 'iq'))
                pend = w.pendcb.get((c, ns), ())
                if (c, ns) in w.acked:
                    ops.append(('reack', c, ns))
                if pend:
                    ops.append(('ack', c, ns, 0))
                    ops.append(('ack', c, ns, 0, 'empty'))
                if len(pend) > 1:
                    ops.append(('ack', c, ns, -1))
        if self.is_async:
            # fault: one recipient's transport write raises while a
            # broadcast is issued on its home host; the others, wherever
            # they are, are served as on a single server
            for (c, ns) in sorted(w.conn):
                if ns == '/':
                    ops.append(('emit-write-fails', c))
        for c in range(len(self.placement)):
            ops.append(('loss', c))
        for h in hosts:
            for ns in ('/', '/x'):
                ops.append(('close', ns, h))
            if any(m[1] == '/' for m in w.member):
                ops.append(('emit+close', '/', h))
        return ops

    def _bad(self, w, key, msg):
        w.violations.append(('C07/' + key, msg))

    def _both(self, w, fn):
        ra = fn(w.A)
        rb = fn(w.B)
        return ra, rb

    def apply(self, w, op):
        kind = op[0]
        if kind == 'connect':
            _, c, ns = op
            self._both(w, lambda s: s.connect(c, ns))
            w.conn.add((c, ns))
        elif kind == 'cdisc':
            _, c, ns = op
            self._both(w, lambda s: s.cdisc(c, ns))
            self._gone(w, c, ns)
        elif kind == 'sdisc':
            _, c, ns, h = op
            ra, rb = self._both(
                w, lambda s: s.api(h, 'disconnect', s.sids[(c, ns)],
                                   namespace=ns))
            for s in (w.A, w.B):
                s.sids.pop((c, ns), None)
                s.out_ids.pop((c, ns), None)
                s.last_acked.pop((c, ns), None)
            self._results(w, op, ra, rb)
            self._gone(w, c, ns)
        elif kind == 'loss':
            _, c = op
            self._both(w, lambda s: s.loss(c))
            for ns in ('/', '/x'):
                self._gone(w, c, ns)
        elif kind in ('enter', 'leave'):
            _, c, ns, h = op
            name = kind + '_room'
            ra, rb = self._both(
                w, lambda s: s.api(h, name, s.sids[(c, ns)], ROOM,
                                   namespace=ns))
            self._results(w, op, ra, rb)
            (w.member.add if kind == 'enter' else w.member.discard)((c, ns))
        elif kind in ('enter-sid0', 'leave-sid0'):
            _, c, ns, h = op
            name = kind.split('-')[0] + '_room'
            ra, rb = self._both(
                w, lambda s: s.api(h, name, s.sids[(c, ns)],
                                   s.sids[(0, '/')], namespace=ns))
            self._results(w, op, ra, rb)
            (w.sidmember.add if kind.startswith('enter')
             else w.sidmember.discard)((c, ns))
        elif kind == 'emit+leave':
            _, c, ns, h = op
            ra, rb = self._both(w, lambda s: s.back_to_back(h, [
                ('emit', ('ev', 'before-leave'), dict(to=ROOM,
                                                      namespace=ns)),
                ('leave_room', (s.sids[(c, ns)], ROOM),
                 dict(namespace=ns))]))
            self._results(w, op, ra, rb)
            w.member.discard((c, ns))
        elif kind == 'emit+close':
            _, ns, h = op
            ra, rb = self._both(w, lambda s: s.back_to_back(h, [
                ('emit', ('ev', 'before-close'), dict(to=ROOM,
                                                      namespace=ns)),
                ('close_room', (ROOM,), dict(namespace=ns))]))
            self._results(w, op, ra, rb)
            w.member = {m for m in w.member if m[1] != ns}
        elif kind == 'close':
            _, ns, h = op
            ra, rb = self._both(w, lambda s: s.api(h, 'close_room', ROOM,
                                                   namespace=ns))
            self._results(w, op, ra, rb)
            w.member = {m for m in w.member if m[1] != ns}
        elif kind == 'emit-write-fails':
            _, c = op
            h = self.placement[c]

            def do(s):
                wc = s.world_of(c)
                eio = wc.sio.eio
                real = eio.send_packet
                bad_sid = wc.eio_sid(s.t[c])
                state = {'n': 0}

                async def send_packet(sid, pkt):
                    if sid == bad_sid:
                        state['n'] += 1
                        raise OSError('scripted transport write fault')
                    return await real(sid, pkt)
                eio.send_packet = send_packet
                try:
                    r = s.api(h, 'emit', 'ev', {'fault': c}, namespace='/')
                finally:
                    eio.send_packet = real
                for x in s.worlds:
                    del x.task_errors[:]
                    if x.loop is not None:
                        x.loop.collect_errors()
                return ('ok', state['n'])
            ra, rb = self._both(w, do)
            self._results(w, op, ra, rb)
        elif kind == 'emitcb':
            _, c, ns, h = op[:4]
            w.ncb += 1
            k = w.ncb
            extra = {'ignore_queue': True} if len(op) > 4 else {}

            def do(s):
                return s.api(h, 'emit', 'q', {'n': k}, to=s.sids[(c, ns)],
                             namespace=ns,
                             callback=lambda *a, s=s: s.cb.append((k, a)),
                             **extra)
            ra, rb = self._both(w, do)
            self._results(w, op, ra, rb)
            w.pendcb[(c, ns)] = w.pendcb.get((c, ns), ()) + (h,)
        elif kind == 'ack':
            _, c, ns, which = op[:4]
            empty = len(op) > 4
            # observe first so that both sides know the id to acknowledge
            self.compare(w, f'before {op}')
            ncb0 = (len(w.A.cb), len(w.B.cb))
            self._both(w, lambda s: s.ack(c, ns, which, empty))
            for side, n0, name in ((w.A, ncb0[0], 'cluster'),
                                   (w.B, ncb0[1], 'single server')):
                # absolute: the acknowledged emit's callback ran, once,
                # with the acknowledged arguments (the twin shares the code)
                new = side.cb[n0:]
                want = () if empty else ('ack', c)
                if len(new) != 1 or tuple(new[0][1]) != want:
                    self._bad(w, 'callback', f'{op}: on the {name} the '
                              f'acknowledgement {want!r} produced callback '
                              f'calls {new!r}')
            pend = list(w.pendcb.get((c, ns), ()))
            pend.pop(which)
            if pend:
                w.pendcb[(c, ns)] = tuple(pend)
            else:
                w.pendcb.pop((c, ns), None)
            w.acked.add((c, ns))
        elif kind == 'reack':
            # a repeated ACK is ignored: no callback anywhere, on either
            # system (absolute, the twin shares the code under test)
            _, c, ns = op
            self.compare(w, f'before {op}')
            self._both(w, lambda s: s.reack(c, ns))
            for side, name in ((w.A, 'cluster'), (w.B, 'single server')):
                if side.cb:
                    self._bad(w, 'repeated-ack-fired', f'{op}: the client '
                              f'repeated an ACK it had already sent and a '
                              f'callback fired on the {name}: {side.cb!r}')
        self.compare(w, op)

    def _gone(self, w, c, ns):
        w.conn.discard((c, ns))
        w.member.discard((c, ns))
        w.sidmember.discard((c, ns))
        if (c, ns) == (0, '/'):
            w.sidmember.clear()     # its next sid names a different room
        w.pendcb.pop((c, ns), None)
        w.acked.discard((c, ns))

    def _results(self, w, op, ra, rb):
        if ra != rb:
            self._bad(w, 'api-result', f'{op}: cluster {ra!r}, single '
                      f'server {rb!r}')

    def compare(self, w, what):
        oa = w.A.observe()
        ob = w.B.observe()
        for k in ('frames', 'log', 'cb', 'rooms'):
            if oa[k] != ob[k]:
                self._bad(w, 'differs/' + k, f'after {what} (placement '
                          f'{self.placement}): cluster {k} = {oa[k]!r}, '
                          f'single server {ob[k]!r}')
        return oa

    def canon(self, w):
        # members of rooms named after a *retired* sid of client 0 keep
        # that membership in both systems; the real tables are compared
        # through rooms() at every step, so only the live flag is state
        return (tuple(sorted(w.conn)), tuple(sorted(w.member)),
                tuple(sorted(w.sidmember)),
                tuple(sorted(w.pendcb.items())), tuple(sorted(w.acked)))

    def probe(self, w):
        n = 0
        clients = sorted({c for c, ns in w.conn})
        for ns in ('/', '/x'):
            sid_keys = [(c, ns) for (c, n2) in sorted(w.conn) if n2 == ns]
            targets = [None, ROOM] + sid_keys
            # lists of rooms: every host evaluates the list against its own
            # table, in which a listed room (a personal room, too) exists
            # only if one of its members lives there
            lists = [['ghost', ROOM], [ROOM, 'ghost']]
            if len(sid_keys) >= 2:
                lists += [[sid_keys[0], sid_keys[-1]],
                          [sid_keys[-1], sid_keys[0]],
                          [sid_keys[-1], ROOM]]
            elif sid_keys:
                lists += [[sid_keys[0], ROOM]]
            targets += lists
            skips = [None] + sid_keys[:2]
            vias = list(range(self.nh)) + ['W']
            for to in targets:
                for skip in skips:
                    if isinstance(to, list) and skip is not None and \
                            skip != sid_keys[0]:
                        continue
                    for via in vias:
                        n += 1

                        def do(s):
                            if isinstance(to, list):
                                t = [s.sids[x] if isinstance(x, tuple)
                                     else x for x in to]
                            else:
                                t = s.sids[to] if isinstance(to, tuple) \
                                    else to
                            sk = s.sids[skip] if isinstance(skip, tuple) \
                                else skip
                            if via == 'W':
                                return s.writer_emit('ev', {'p': n,
                                                            'b': b'x'}, to=t,
                                                     skip_sid=sk,
                                                     namespace=ns)
                            return s.api(via, 'emit', 'ev',
                                         {'p': n, 'b': b'x'}, to=t,
                                         skip_sid=sk, namespace=ns)
                        ra, rb = self._both(w, do)
                        self._results(w, ('emit', to, skip, via, ns), ra, rb)
                        self.compare(w, f'emit(to={to}, skip={skip}, '
                                     f'via={via}, ns={ns})')
        w.obs_key = n


def factory(**params):
    return Model(**params)


e1.register('c07', factory)


def run(tier, seed, result):
    from . import c07_delayed
    notes = []
    closure = True
    if tier == 'quick':
        cfgs = [((0, 1), [(0, '/'), (1, '/'), (0, '/x')], [[1, '/']]),
                ((0, 0), [(0, '/'), (1, '/')], [[1, '/']])]
    else:
        cfgs = [((0, 1), [(0, '/'), (1, '/'), (0, '/x'), (1, '/x')],
                 [[0, '/']]),
                ((0, 0), [(0, '/'), (1, '/'), (0, '/x')], [[1, '/']]),
                ((0, 1, 2), [(0, '/'), (1, '/'), (2, '/')], [[2, '/']]),
                ((0, 1, 1), [(0, '/'), (1, '/'), (2, '/')], [[1, '/']]),
                ((0, 1, 2, 3), [(0, '/'), (3, '/')], [[3, '/']])]
    for placement, pairs, cbpairs in cfgs:
        for is_async in (False, True):
            params = dict(is_async=is_async, placement=list(placement),
                          pairs=[list(p) for p in pairs], seed=seed,
                          cbpairs=cbpairs)
            params['sidroom'] = len(set(placement)) > 1
            st = e1.explore('c07', params, result, max_depth=40)
            closure = closure and st['closure']
            notes.append(f'placement={placement} async={is_async}: {st}')
    notes.append(c07_delayed.run(tier, seed, result))
    result.assumptions += [
        'messages pass through pickle as with the bundled backends; the '
        'channel is one FIFO log with a cursor per host',
        'immediate mode: every host drains the channel after every '
        'operation',
        'at most two callbacks outstanding per client connection '
        '(acknowledged in either order)',
    ]
    return dict(
        rule='lockstep BFS to closure: cluster of 2-4 real servers with '
             'PubSubManager/AsyncPubSubManager vs one real server with a '
             'plain manager; operations issued via every host (and a '
             'write-only manager for emits); at every state every '
             'emit(to in {broadcast, room, each sid}, skip_sid, via, '
             'namespace) is compared; observations = per-client frames, '
             'handler log, callback log, rooms()',
        explanation=' | '.join(notes),
        exhaustive=False)   # immediate mode closes; delayed mode is
    #                       depth-bounded (see explanation)
