"""C01 Packet codec: round trip and v5 wire conformance (E4 + spec codec)."""
import itertools
import json

from .. import common, enum, refcodec as rc
from ..par import pmap

LEVEL = 'exploration'

NSS = [None, '/', '/a', '/a-1', '/1-', '/a/b', '/ä', '/a?q=1']
IDS = [None, 0, 1, 9, 10, 12, 10 ** 99, 10 ** 100 - 1]
SMALL_HEADERS = [(None, None), ('/a-1', 12), ('/1-', 0),
                 ('/a?q=1', 10 ** 99)]
SYNTAX = '0125-/,?[]"a{}:6'


def data_sets(ptype, N, seed):
    """(full, representative) payload lists for a packet type."""
    small = enum.leaf_alphabet(seed, small=True)
    big = enum.leaf_alphabet(seed, small=False)
    T = list(enum.trees_upto(N - 1, small)) + list(enum.trees_upto(2, big))
    names = common.rotate(['ev', '1-', '/x,', 'connect', ''], seed)
    if ptype in (rc.EVENT, rc.BINARY_EVENT):
        full = [[names[0]]] + [[names[0], t] for t in T]
        full += [[names[1], a, b] for a in enum.trees_upto(1, small)
                 for b in enum.trees_upto(1, small)]
        full += [[nm, b'x'] for nm in names]
        rep = [[names[0]], [names[1], 1, '2'], [names[0], b'\x01'],
               [names[2], {'k': [b'a', {'1-': b'b'}]}, b'c'],
               [names[0], [[[b'deep']]]], [names[0], '1-'],
               [names[3], {}], [names[0], None, None],
               [names[0]] + [bytes([i]) for i in range(12)],
               [names[0], {'k': [bytes([i]) for i in range(5)]},
                [[b'x', {'1-': b'y'}], b'z']]]
    elif ptype in (rc.ACK, rc.BINARY_ACK):
        full = [[]] + [[t] for t in T]
        full += [[a, b] for a in enum.trees_upto(1, small)
                 for b in enum.trees_upto(1, small)]
        rep = [[], [1], ['1-', 2], [b'x'], [{'k': b'y'}, [b'z', b'']],
               [None], [[]], [-7, 1.5],
               [bytes([i]) for i in range(11)],
               [{'k': [b'a', b'b'], '1-': {'k': b'c'}}, [b'd', [b'e']]]]
    else:
        full = [None] + T
        rep = [None, {}, {'sid': 'abc'}, 'msg', {'message': 'm', 'data': [1]},
               [1, 2], True, 5, -5, 1.5, b'x', {'k': b'x'}, [b'x'],
               {'_k': '1-'}]
    return full, rep


def check_encode_case(ptype, nsp, id, data, stats, bad):
    from socketio import packet as P
    case = (ptype, nsp, id, data)
    hasb = enum.has_bytes(data)
    if hasb and ptype in (rc.BINARY_EVENT, rc.BINARY_ACK):
        # an application never constructs the promoted types itself (the
        # constructor refuses); promotion from EVENT/ACK covers these frames
        stats['explicit_binary_skipped'] += 1
        return
    # --- construction / promotion ------------------------------------------
    try:
        pkt = P.Packet(ptype, data=data, namespace=nsp, id=id)
        raised = False
    except ValueError:
        raised = True
    must_raise = hasb and ptype not in (rc.EVENT, rc.ACK, rc.BINARY_EVENT,
                                        rc.BINARY_ACK)
    if raised != must_raise:
        bad('C01/binary-acceptance',
            f'constructor raised={raised}, spec says raise={must_raise}',
            case)
        return
    if raised:
        stats['refused_binary'] += 1
        return
    ft, header, jdata, atts = rc.ref_encode(ptype, nsp, id, data)
    if pkt.packet_type != ft:
        bad('C01/promotion', f'type became {pkt.packet_type}, spec {ft}',
            case)
        return
    # encoding is a function of the packet: the same packet encoded again
    # (a server re-sends one packet object to many recipients) yields the
    # same frames, whatever the caller did to the first result
    first = pkt.encode()
    keep = list(first) if isinstance(first, list) else first
    if isinstance(first, list):
        first.append('poison')
        first.reverse()
    enc = pkt.encode()
    if (list(enc) if isinstance(enc, list) else enc) != keep:
        bad('C01/encode-twice', f'second encode() of the same packet gave '
            f'{enc!r}, the first {keep!r}', case)
        return
    if isinstance(enc, list):
        frame, got_atts = enc[0], enc[1:]
        if ft not in (rc.BINARY_EVENT, rc.BINARY_ACK):
            bad('C01/frame-list', 'non-binary packet encoded as a list', case)
            return
    else:
        frame, got_atts = enc, []
        if ft in (rc.BINARY_EVENT, rc.BINARY_ACK):
            bad('C01/frame-list', 'binary packet encoded as a bare string',
                case)
            return
    if not isinstance(frame, str):
        bad('C01/frame-type', f'text frame is {type(frame).__name__}', case)
        return
    if got_atts != atts or any(type(a) is not bytes for a in got_atts):
        bad('C01/attachments', f'attachments {got_atts!r}, spec {atts!r}',
            case)
        return
    if not frame.startswith(header):
        bad('C01/header', f'frame {frame[:40]!r} lacks spec header '
            f'{header!r}', case)
        return
    rest = frame[len(header):]
    if jdata is None:
        if rest != '':
            bad('C01/payload', f'payload {rest!r} for data None', case)
            return
    else:
        ok = rest in (json.dumps(jdata, separators=(',', ':')),
                      json.dumps(jdata, separators=(',', ':'),
                                 ensure_ascii=False))
        if not ok:
            bad('C01/payload', f'payload {rest[:60]!r} is not the compact '
                f'JSON of the spec', case)
            return
    # --- the spec decoder accepts the implementation's frame --------------
    amb = not rc.unambiguous(ptype, nsp, id, data)
    if amb:
        stats['ambiguous'] += 1
    else:
        try:
            t2, n2, i2, d2, na = rc.ref_decode(frame)
            if atts:
                d2 = rc.reconstruct(d2, got_atts)
            if (t2, n2, i2, na) != (ft, nsp or '/', id, len(atts)) or \
                    not rc.typed_equal(d2, data):
                bad('C01/spec-decode', 'spec decoder reads the frame '
                    f'differently: {(t2, n2, i2, na)!r}', case)
                return
        except rc.Reject as e:
            bad('C01/spec-decode', f'spec decoder rejects the frame: {e}',
                case)
            return
    # --- implementation decodes its own output -----------------------------
    try:
        dec = P.Packet(encoded_packet=frame)
    except Exception as e:
        if not amb:
            bad('C01/decode-raises', f'decoder raised {e!r} on own output',
                case)
        return
    if amb:
        return
    if dec.attachment_count != len(atts):
        bad('C01/attachment-count', f'decoder expects '
            f'{dec.attachment_count} attachments, {len(atts)} produced',
            case)
        return
    answers = []
    try:
        for a in got_atts:
            answers.append(dec.add_attachment(a))
    except Exception as e:
        bad('C01/add-attachment', f'add_attachment raised {e!r}', case)
        return
    if answers != [False] * (len(atts) - 1) + ([True] if atts else []):
        bad('C01/completion', f'completion answers {answers!r}', case)
        return
    try:
        dec.add_attachment(b'surplus')
        bad('C01/surplus', 'surplus attachment accepted', case)
        return
    except ValueError:
        pass
    want_ns = rc.strip_query(nsp)
    got_ns = dec.namespace if dec.namespace is not None else '/'
    if dec.packet_type != ft or got_ns != want_ns or dec.id != id or \
            type(dec.id) is not type(id) or \
            not rc.typed_equal(dec.data, data):
        bad('C01/round-trip',
            f'decoded {(dec.packet_type, dec.namespace, dec.id)!r} '
            f'data {dec.data!r}', case)
        return
    # the decoded payload belongs to the receiver: changing it must not
    # change what the same frame decodes to next time
    _poison(dec.data)
    try:
        dec2 = P.Packet(encoded_packet=frame)
        for a in got_atts:
            dec2.add_attachment(a)
    except Exception as e:
        bad('C01/second-decode', f'second decode raised {e!r}', case)
        return
    if not rc.typed_equal(dec2.data, data):
        bad('C01/second-decode', f'the same frame decoded to {dec2.data!r} '
            f'after the first result had been modified by its receiver',
            case)
        return
    stats['roundtrips'] += 1
    if atts:
        stats['with_attachments'] += 1
        if enum.depth_of_bytes(data) >= 2:
            stats['nested_bytes'] += 1


def _poison(x):
    if isinstance(x, list):
        for i in x:
            _poison(i)
        x.append('<poison>')
    elif isinstance(x, dict):
        for v in list(x.values()):
            _poison(v)
        x['<poison>'] = 1


def _new_stats():
    return dict(roundtrips=0, ambiguous=0, refused_binary=0,
                with_attachments=0, nested_bytes=0, cases=0, accepted=0,
                excluded_numeric=0, explicit_binary_skipped=0)


def enc_job(args):
    ptype, N, seed, hsel = args
    common.setup_imports()
    stats = _new_stats()
    viols = []

    def bad(key, msg, case):
        if len(viols) < 20:
            viols.append((key, msg, {'replay': {
                'module': 'mc.checks.c01', 'func': 'replay_encode',
                'args': [common.jsonable(list(case))]}}))
    full, rep = data_sets(ptype, N, seed)
    for data in full:
        nsp, id = SMALL_HEADERS[hsel]
        stats['cases'] += 1
        check_encode_case(ptype, nsp, id, data, stats, bad)
    for data in rep:
        for nsp in NSS[hsel * 2:hsel * 2 + 2]:
            for id in IDS:
                stats['cases'] += 1
                check_encode_case(ptype, nsp, id, data, stats, bad)
    # id boundary: 100 digits accepted (above), 101 digits must be refused
    # by the decoder rather than silently mis-parsed
    from socketio import packet as P
    f = P.Packet(rc.EVENT, data=['e'], id=10 ** 100).encode()
    try:
        d = P.Packet(encoded_packet=f)
        if d.id != 10 ** 100 or d.data != ['e']:
            bad('C01/id-boundary', '101-digit id silently mis-parsed',
                (rc.EVENT, None, 10 ** 100, ['e']))
    except ValueError:
        pass
    return stats, viols


def replay_encode(case):
    case = common.unjson(case)
    common.setup_imports()
    out = []
    check_encode_case(*case, _new_stats(),
                      lambda k, m, c: out.append((k, m)))
    return out


def check_decode_case(frame, stats, bad):
    from socketio import packet as P
    try:
        t, nsp, id, data, natt = rc.ref_decode(frame)
    except rc.Reject:
        return
    if isinstance(data, (int, float)) and not isinstance(data, bool):
        stats['excluded_numeric'] += 1
        return
    stats['accepted'] += 1
    try:
        dec = P.Packet(encoded_packet=frame)
    except Exception as e:
        bad('C01/decode-rejects-valid', f'{frame!r}: spec accepts, decoder '
            f'raised {e!r}', frame)
        return
    got_ns = dec.namespace if dec.namespace is not None else '/'
    if dec.packet_type != t or got_ns != rc.strip_query(nsp) or \
            dec.id != id or not rc.typed_equal(dec.data, data) or \
            dec.attachment_count != natt:
        bad('C01/decode-differs',
            f'{frame!r}: spec {(t, nsp, id, data, natt)!r}, decoder '
            f'{(dec.packet_type, dec.namespace, dec.id, dec.data, dec.attachment_count)!r}',
            frame)


def dec_job(args):
    first, second, L, alphabet = args
    common.setup_imports()
    stats = _new_stats()
    viols = []

    def bad(key, msg, frame):
        if len(viols) < 20:
            viols.append((key, msg, {'replay': {
                'module': 'mc.checks.c01', 'func': 'replay_decode',
                'args': [frame]}}))
    prefixes = [first] if second is None else [first + second]
    if second is None:
        # lengths 1 only
        stats['cases'] += 1
        check_decode_case(first, stats, bad)
        return stats, viols
    for ln in range(0, L - 1):
        for t in itertools.product(alphabet, repeat=ln):
            stats['cases'] += 1
            check_decode_case(prefixes[0] + ''.join(t), stats, bad)
    return stats, viols


def replay_decode(frame):
    common.setup_imports()
    out = []
    check_decode_case(frame, _new_stats(), lambda k, m, c: out.append((k, m)))
    return out


def run(tier, seed, result):
    N, L = (5, 6) if tier == 'quick' else (6, 7)
    alphabet = SYNTAX
    jobs = [(t, N, seed, h) for t in range(7) for h in range(4)]
    tot = _new_stats()
    for stats, viols in pmap(enc_job, jobs):
        for k, v in stats.items():
            tot[k] += v
        for key, msg, wit in viols:
            result.violation(key, msg, wit)
    enc_cases = tot['cases']
    djobs = [(a, None, L, alphabet) for a in '0123456'] + \
            [(a, b, L, alphabet) for a in '0123456' for b in alphabet]
    for stats, viols in pmap(dec_job, djobs):
        for k, v in stats.items():
            tot[k] += v
        for key, msg, wit in viols:
            result.violation(key, msg, wit)
    result.add('evaluations', tot['cases'])
    result.add('distinct_nontrivial', tot['roundtrips'] + tot['accepted'])
    for k in ('roundtrips', 'ambiguous', 'refused_binary',
              'with_attachments', 'nested_bytes', 'accepted',
              'excluded_numeric', 'explicit_binary_skipped'):
        result.add(k, tot[k])
    result.sample({'packet': [5, '/a-1', 12,
                              ['ev', {'k': [b'a', {'1-': b'b'}]}, b'c']]})
    result.sample({'frame': '51-/a,0["a"]'})
    result.assumptions += [
        'the reference codec (mc/refcodec.py) is a transcription of the v5 '
        'protocol document / reference parser and is trusted',
        'bare top-level numeric payloads are excluded as ambiguous on the '
        'wire (counted as "ambiguous"/"excluded_numeric")',
        'payload integers beyond 100 digits are outside the codec domain '
        '(engineio.json guard)',
    ]
    return dict(
        rule='encode direction: every payload tree with <= %d nodes over a '
             '9-leaf colliding alphabet (and <= 2 nodes over the 19-leaf '
             'one) x 4 headers, plus 8 namespaces x 8 ids x representative '
             'payloads, for each of the 7 types (%d cases); decode '
             'direction: every string of length <= %d over %r starting with '
             'a type digit. Non-trivial = a case whose round trip was fully '
             'compared (encode) or that the spec decoder accepts (decode).'
             % (N - 1 + 1, enc_cases, L, alphabet),
        explanation='all cases of the stated grammar enumerated; '
                    'no cap was hit',
        exhaustive=True)
