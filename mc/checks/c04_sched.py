"""C04 part 2 (E2): concurrent terminating causes on AsyncServer.

One transport connected to '/' and '/x'.  Up to three of the causes
{server.disconnect(sid), client DISCONNECT, transport loss,
server.disconnect(sibling)} run as concurrent tasks; suspension points are
handler entry and exit and the moment after every send.  Every interleaving
is executed.
"""
import itertools

from .. import e2
from ..worlds import ServerWorld, eio_packet
from ..par import pmap
from .. import common

CAUSES = ['sdisc', 'cdisc', 'loss', 'sib']


def make_scenario(causes, coroutine_handlers=True, always_connect=False):
    def scenario(loop):
        w = ServerWorld(is_async=True, loop=loop, namespaces=['/', '/x'],
                        always_connect=always_connect)
        sio = w.sio
        log = w.log

        if coroutine_handlers:
            @sio.on('disconnect')
            async def d(sid, reason):
                log.append(('disconnect', '/', sid, reason))
                await loop.point('h-in/')
                await loop.point('h-out/')

            @sio.on('disconnect', namespace='/x')
            async def dx(sid, reason):
                log.append(('disconnect', '/x', sid, reason))
                await loop.point('h-in/x')
        else:
            @sio.on('disconnect')
            def d(sid, reason):
                log.append(('disconnect', '/', sid, reason))

            @sio.on('disconnect', namespace='/x')
            def dx(sid, reason):
                log.append(('disconnect', '/x', sid, reason))
        t = w.new_transport()
        w.recv_packet(t, 0, '/')
        w.recv_packet(t, 0, '/x')
        sock = w.transports[t]
        sid = w.sid_of(t, '/')
        sidx = w.sid_of(t, '/x')
        w.drain_all()
        # from now on every send is a suspension point
        real_send = sock.send

        async def send(pkt):
            await real_send(pkt)
            await loop.point('send')
        sock.send = send
        errors = []

        async def cause(name):
            await loop.point('start:' + name)
            try:
                if name == 'sdisc':
                    await sio.disconnect(sid)
                elif name == 'cdisc':
                    await sock.receive(
                        eio_packet.Packet(eio_packet.MESSAGE, '1'))
                elif name == 'loss':
                    await sock.close(wait=False, abort=True,
                                     reason='transport close')
                    w.eio.sockets.pop(sock.sid, None)
                elif name == 'sib':
                    await sio.disconnect(sidx, namespace='/x')
            except Exception as e:
                errors.append((name, repr(e)))
        for c in causes:
            loop.create_task(cause(c))

        def finish(hit):
            n = w.namer.norm
            errs = loop.collect_errors()
            lg = [n(e) for e in log]
            snap = w.snapshot()
            out = {
                'log': lg, 'errors': n(errors), 'loop_errors': errs,
                'horizon': hit, 'snap': snap,
                'connected': (sio.manager.is_connected(sid, '/'),
                              sio.manager.is_connected(sidx, '/x')),
                'rooms': (sio.rooms(sid), sio.rooms(sidx, '/x')),
                'sid': n(sid), 'sidx': n(sidx),
                'parked': [lb for lb, f in loop.parked if not f.done()],
            }
            return out
        return finish
    return scenario


def judge(causes, outcome):
    """Return list of (key, message)."""
    v = []
    sid, sidx = outcome['sid'], outcome['sidx']
    if outcome['horizon'] or outcome['parked']:
        v.append(('C04/sched-stuck', f'execution did not finish: parked '
                  f'{outcome["parked"]}'))
        return v
    if outcome['errors'] or outcome['loop_errors']:
        v.append(('C04/sched-exception',
                  f'exception escaped: {outcome["errors"]} '
                  f'{outcome["loop_errors"]}'))
    reasons = {'sdisc': 'server disconnect', 'cdisc': 'client disconnect',
               'loss': 'transport close', 'sib': 'server disconnect'}
    main_causes = [c for c in causes if c != 'sib']
    n_main = [e for e in outcome['log'] if e[2] == sid]
    n_sib = [e for e in outcome['log'] if e[2] == sidx]
    if main_causes:
        if len(n_main) != 1:
            v.append(('C04/sched-handler-count',
                      f'disconnect handler ran {len(n_main)} times for the '
                      f'main sid: {outcome["log"]}'))
        elif n_main[0][3] not in {reasons[c] for c in main_causes}:
            v.append(('C04/sched-reason', f'reason {n_main[0][3]!r} names no '
                      f'cause in progress {main_causes}'))
        if outcome['connected'][0] or outcome['rooms'][0]:
            v.append(('C04/sched-still-there',
                      f'main sid still connected/in rooms: {outcome}'))
    elif n_main or not outcome['connected'][0]:
        v.append(('C04/sched-sibling-affected',
                  f'main namespace affected by sibling disconnect: '
                  f'{outcome["log"]}'))
    sib_causes = [c for c in causes if c in ('sib', 'loss')]
    if sib_causes:
        if len(n_sib) != 1:
            v.append(('C04/sched-handler-count',
                      f'disconnect handler ran {len(n_sib)} times for the '
                      f'sibling sid: {outcome["log"]}'))
        elif n_sib[0][3] not in {reasons[c] for c in sib_causes}:
            v.append(('C04/sched-reason', f'sibling reason {n_sib[0][3]!r}'))
        if outcome['connected'][1] or outcome['rooms'][1]:
            v.append(('C04/sched-still-there', 'sibling sid still there'))
    elif n_sib or not outcome['connected'][1]:
        v.append(('C04/sched-sibling-affected',
                  f'sibling namespace was ended by {causes}: '
                  f'{outcome["log"]}'))
    snap = outcome['snap']
    if main_causes and sid in repr(snap):
        v.append(('C04/sched-residue', f'main sid left in {snap}'))
    if sib_causes and sidx in repr(snap):
        v.append(('C04/sched-residue', f'sibling sid left in {snap}'))
    if snap['pending']:
        v.append(('C04/sched-residue', f'pending_disconnect {snap}'))
    return v


def job(args):
    causes, coro, max_execs = args
    common.setup_imports()
    viols = []
    outcomes = set()
    sample = []

    def on(choices, outcome):
        outcomes.add(repr((outcome['log'], outcome['connected'])))
        if not sample:
            sample.append([c[2] for c in choices])
        for key, msg in judge(causes, outcome):
            if len(viols) < 5:
                viols.append((key, msg, {'replay': {
                    'module': 'mc.checks.c04_sched', 'func': 'replay',
                    'args': [list(causes), coro,
                             [c[1] for c in choices]]}}))
    st = e2.explore(make_scenario(causes, coro), on, max_execs=max_execs)
    return causes, coro, st, viols, len(outcomes), sample


def replay(causes, coro, prefix):
    common.setup_imports()
    choices, outcome = e2.run_one(make_scenario(tuple(causes), coro),
                                  list(prefix))
    return judge(tuple(causes), outcome)


def run(tier, seed, result):
    jobs = []
    for k in (1, 2):
        for causes in itertools.combinations(CAUSES, k):
            jobs.append((causes, True, None))
            jobs.append((causes, False, None))
    # the same cause twice (two application tasks both calling disconnect)
    jobs.append((('sdisc', 'sdisc'), True, None))
    jobs.append((('cdisc', 'cdisc'), True, None))
    cap = 4000 if tier == 'quick' else 400000
    for causes in itertools.combinations(CAUSES, 3):
        jobs.append((causes, True, cap))
    total = 0
    complete = True
    notes = []
    for causes, coro, st, viols, nout, sample in pmap(job, jobs):
        total += st['executions']
        complete = complete and st['complete']
        if not st['complete']:
            notes.append(f'{causes}: capped at {st["executions"]} executions')
        result.add('schedules', st['executions'])
        result.add('sched_distinct_outcomes', nout)
        for key, msg, wit in viols:
            result.violation(key, msg, wit)
        if sample and len(causes) == 2:
            result.sample({'causes': list(causes), 'schedule': sample[0]})
    result.add('states', total)
    result.add('transitions', total)
    return ('E2 schedules: %d executions over %d cause sets, %s%s' % (
        total, len(jobs),
        'all interleavings' if complete else 'pairs exhaustive, triples '
        'capped (DFS order)', '; ' + '; '.join(notes) if notes else ''))
