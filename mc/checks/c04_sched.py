"""C04 part 2 (E2): concurrent terminating causes on AsyncServer.

One transport connected to '/' and '/x'.  Up to three of the causes
{server.disconnect(sid), client DISCONNECT, transport loss,
server.disconnect(sibling)} run as concurrent tasks; suspension points are
handler entry and exit and the moment after every send.  Every interleaving
is executed.
"""
import itertools

from .. import e2
from ..worlds import ServerWorld, eio_packet
from ..par import pmap
from .. import common

CAUSES = ['sdisc', 'cdisc', 'loss', 'sib']


def make_scenario(causes, coroutine_handlers=True, always_connect=False):
    def scenario(loop):
        w = ServerWorld(is_async=True, loop=loop, namespaces=['/', '/x'],
                        always_connect=always_connect)
        sio = w.sio
        log = w.log

        if coroutine_handlers:
            @sio.on('disconnect')
            async def d(sid, reason):
                log.append(('disconnect', '/', sid, reason))
                await loop.point('h-in/')
                await loop.point('h-out/')

            @sio.on('disconnect', namespace='/x')
            async def dx(sid, reason):
                log.append(('disconnect', '/x', sid, reason))
                await loop.point('h-in/x')
        else:
            @sio.on('disconnect')
            def d(sid, reason):
                log.append(('disconnect', '/', sid, reason))

            @sio.on('disconnect', namespace='/x')
            def dx(sid, reason):
                log.append(('disconnect', '/x', sid, reason))
        t = w.new_transport()
        w.recv_packet(t, 0, '/')
        w.recv_packet(t, 0, '/x')
        sock = w.transports[t]
        sid = w.sid_of(t, '/')
        sidx = w.sid_of(t, '/x')
        w.drain_all()
        # from now on every send is a suspension point
        real_send = sock.send

        async def send(pkt):
            await real_send(pkt)
            await loop.point('send')
        sock.send = send
        errors = []

        async def cause(name):
            await loop.point('start:' + name)
            try:
                if name == 'sdisc':
                    await sio.disconnect(sid)
                elif name == 'cdisc':
                    await sock.receive(
                        eio_packet.Packet(eio_packet.MESSAGE, '1'))
                elif name == 'loss':
                    await sock.close(wait=False, abort=True,
                                     reason='transport close')
                    w.eio.sockets.pop(sock.sid, None)
                elif name == 'sib':
                    await sio.disconnect(sidx, namespace='/x')
            except Exception as e:
                errors.append((name, repr(e)))
        for c in causes:
            loop.create_task(cause(c))

        def finish(hit):
            n = w.namer.norm
            errs = loop.collect_errors()
            lg = [n(e) for e in log]
            snap = w.snapshot()
            out = {
                'log': lg, 'errors': n(errors), 'loop_errors': errs,
                'horizon': hit, 'snap': snap,
                'connected': (sio.manager.is_connected(sid, '/'),
                              sio.manager.is_connected(sidx, '/x')),
                'rooms': (sio.rooms(sid), sio.rooms(sidx, '/x')),
                'sid': n(sid), 'sidx': n(sidx),
                'parked': [lb for lb, f in loop.parked if not f.done()],
            }
            return out
        return finish
    return scenario


def judge(causes, outcome):
    """Return list of (key, message)."""
    v = []
    sid, sidx = outcome['sid'], outcome['sidx']
    if outcome['horizon'] or outcome['parked']:
        v.append(('C04/sched-stuck', f'execution did not finish: parked '
                  f'{outcome["parked"]}'))
        return v
    if outcome['errors'] or outcome['loop_errors']:
        v.append(('C04/sched-exception',
                  f'exception escaped: {outcome["errors"]} '
                  f'{outcome["loop_errors"]}'))
    reasons = {'sdisc': 'server disconnect', 'cdisc': 'client disconnect',
               'loss': 'transport close', 'sib': 'server disconnect'}
    main_causes = [c for c in causes if c != 'sib']
    n_main = [e for e in outcome['log'] if e[2] == sid]
    n_sib = [e for e in outcome['log'] if e[2] == sidx]
    if main_causes:
        if len(n_main) != 1:
            v.append(('C04/sched-handler-count',
                      f'disconnect handler ran {len(n_main)} times for the '
                      f'main sid: {outcome["log"]}'))
        elif n_main[0][3] not in {reasons[c] for c in main_causes}:
            v.append(('C04/sched-reason', f'reason {n_main[0][3]!r} names no '
                      f'cause in progress {main_causes}'))
        if outcome['connected'][0] or outcome['rooms'][0]:
            v.append(('C04/sched-still-there',
                      f'main sid still connected/in rooms: {outcome}'))
    elif n_main or not outcome['connected'][0]:
        v.append(('C04/sched-sibling-affected',
                  f'main namespace affected by sibling disconnect: '
                  f'{outcome["log"]}'))
    sib_causes = [c for c in causes if c in ('sib', 'loss')]
    if sib_causes:
        if len(n_sib) != 1:
            v.append(('C04/sched-handler-count',
                      f'disconnect handler ran {len(n_sib)} times for the '
                      f'sibling sid: {outcome["log"]}'))
        elif n_sib[0][3] not in {reasons[c] for c in sib_causes}:
            v.append(('C04/sched-reason', f'sibling reason {n_sib[0][3]!r}'))
        if outcome['connected'][1] or outcome['rooms'][1]:
            v.append(('C04/sched-still-there', 'sibling sid still there'))
    elif n_sib or not outcome['connected'][1]:
        v.append(('C04/sched-sibling-affected',
                  f'sibling namespace was ended by {causes}: '
                  f'{outcome["log"]}'))
    snap = outcome['snap']
    if main_causes and sid in repr(snap):
        v.append(('C04/sched-residue', f'main sid left in {snap}'))
    if sib_causes and sidx in repr(snap):
        v.append(('C04/sched-residue', f'sibling sid left in {snap}'))
    if snap['pending']:
        v.append(('C04/sched-residue', f'pending_disconnect {snap}'))
    return v


def reconnect_scenario(coroutine_handlers, always_connect):
    """server.disconnect(sid1) - suspended at its DISCONNECT write and in
    the handler - while the same client sends DISCONNECT and then a new
    CONNECT for that namespace (one after the other).  sid1's disconnect
    handler runs exactly once; a session accepted afterwards is none of the
    disconnect()'s business."""
    def scenario(loop):
        loop.setup = True
        w = ServerWorld(is_async=True, loop=loop, namespaces=['/'],
                        always_connect=always_connect)
        sio = w.sio
        log = w.log
        if coroutine_handlers:
            @sio.on('disconnect')
            async def d(sid, reason):
                log.append(('disconnect', '/', sid, reason))
                await loop.point('h-in')
        else:
            @sio.on('disconnect')
            def d(sid, reason):
                log.append(('disconnect', '/', sid, reason))
        t = w.new_transport()
        w.recv_packet(t, 0, '/')
        sock = w.transports[t]
        sid1 = w.sid_of(t, '/')
        w.drain_all()
        real_send = sock.send

        async def send(pkt):
            await real_send(pkt)
            await loop.point('send')
        sock.send = send
        loop.setup = False

        async def sdisc():
            await loop.point('start:sdisc')
            await sio.disconnect(sid1)

        async def client():
            for f in ('1', '0'):
                await loop.point('arrive')
                await sock.receive(eio_packet.Packet(eio_packet.MESSAGE, f))
        loop.create_task(sdisc())
        loop.create_task(client())

        def finish(hit):
            n = w.namer.norm
            frames = [f for f in w.drain(t) if f[0] == 'pkt']
            accepted = [f[4]['sid'] for f in frames if f[1] == 0 and
                        isinstance(f[4], dict) and 'sid' in f[4]]
            now = w.sid_of(t, '/')
            return {'log': [n(e) for e in log], 'sid1': n(sid1),
                    'accepted': accepted,
                    'now': n(now) if now else None,
                    'now_connected': bool(now) and
                    sio.manager.is_connected(now, '/'),
                    'frames': frames, 'errors': loop.collect_errors(),
                    'horizon': hit,
                    'parked': [lb for lb, f in loop.parked if not f.done()]}
        return finish
    return scenario


def judge_reconnect(out):
    if out['horizon'] or out['parked']:
        return [('C04/sched-stuck', f'reconnect scenario: {out}')]
    v = []
    if out['errors']:
        v.append(('C04/sched-exception', f'reconnect scenario: '
                  f'{out["errors"]}'))
    n1 = [e for e in out['log'] if e[2] == out['sid1']]
    other = [e for e in out['log'] if e[2] != out['sid1']]
    if len(n1) != 1:
        v.append(('C04/sched-handler-count', f'reconnect scenario: the '
                  f'disconnect handler ran {len(n1)} times for the '
                  f'disconnected sid: {out["log"]}'))
    if other:
        v.append(('C04/sched-wrong-victim', f'reconnect scenario: a session '
                  f'nobody asked to end was disconnected: {other} '
                  f'(frames {out["frames"]})'))
    if out['accepted'] and out['now'] not in out['accepted']:
        # under always_connect the CONNECT goes out before a refusal
        if not any(f[1] == 1 for f in out['frames']):
            v.append(('C04/sched-wrong-victim', f'reconnect scenario: the '
                      f'newly accepted session {out["accepted"]} is gone: '
                      f'{out}'))
    return v


def job_reconnect(args):
    coro, ac = args
    common.setup_imports()
    viols = []

    def on(choices, out):
        for key, msg in judge_reconnect(out):
            if len(viols) < 3:
                viols.append((key, msg, {'replay': {
                    'module': 'mc.checks.c04_sched',
                    'func': 'replay_reconnect',
                    'args': [coro, ac, [c[1] for c in choices]]}}))
    st = e2.explore(reconnect_scenario(coro, ac), on)
    return st, viols


def replay_reconnect(coro, ac, prefix):
    common.setup_imports()
    choices, out = e2.run_one(reconnect_scenario(coro, ac), list(prefix))
    return judge_reconnect(out)


def job(args):
    causes, coro, max_execs = args
    common.setup_imports()
    viols = []
    outcomes = set()
    sample = []

    def on(choices, outcome):
        outcomes.add(repr((outcome['log'], outcome['connected'])))
        if not sample:
            sample.append([c[2] for c in choices])
        for key, msg in judge(causes, outcome):
            if len(viols) < 5:
                viols.append((key, msg, {'replay': {
                    'module': 'mc.checks.c04_sched', 'func': 'replay',
                    'args': [list(causes), coro,
                             [c[1] for c in choices]]}}))
    st = e2.explore(make_scenario(causes, coro), on, max_execs=max_execs)
    return causes, coro, st, viols, len(outcomes), sample


def replay(causes, coro, prefix):
    common.setup_imports()
    choices, outcome = e2.run_one(make_scenario(tuple(causes), coro),
                                  list(prefix))
    return judge(tuple(causes), outcome)


def run(tier, seed, result):
    jobs = []
    for k in (1, 2):
        for causes in itertools.combinations(CAUSES, k):
            jobs.append((causes, True, None))
            jobs.append((causes, False, None))
    # the same cause twice (two application tasks both calling disconnect)
    jobs.append((('sdisc', 'sdisc'), True, None))
    jobs.append((('cdisc', 'cdisc'), True, None))
    cap = 4000 if tier == 'quick' else 400000
    for causes in itertools.combinations(CAUSES, 3):
        jobs.append((causes, True, cap))
    total = 0
    complete = True
    notes = []
    for causes, coro, st, viols, nout, sample in pmap(job, jobs):
        total += st['executions']
        complete = complete and st['complete']
        if not st['complete']:
            notes.append(f'{causes}: capped at {st["executions"]} executions')
        result.add('schedules', st['executions'])
        result.add('sched_distinct_outcomes', nout)
        for key, msg, wit in viols:
            result.violation(key, msg, wit)
        if sample and len(causes) == 2:
            result.sample({'causes': list(causes), 'schedule': sample[0]})
    for st, viols in pmap(job_reconnect, [(c, a) for c in (True, False)
                                          for a in (False, True)]):
        total += st['executions']
        result.add('schedules', st['executions'])
        complete = complete and st['complete']
        for key, msg, wit in viols:
            result.violation(key, msg, wit)
    result.add('states', total)
    result.add('transitions', total)
    return ('E2 schedules: %d executions over %d cause sets + 4 reconnect '
            'scenarios, %s%s' % (
        total, len(jobs),
        'all interleavings' if complete else 'pairs exhaustive, triples '
        'capped (DFS order)', '; ' + '; '.join(notes) if notes else ''))
