"""C11 No residual server state once a client is gone (fault enumeration).

E1 over client histories (connects incl. refused, rooms, events, emits with
unanswered callbacks, partial binary packets, malformed frames, stale-sid
API calls) ended by every cause at every position, with the fault dimension
"the next application handler invocation raises".  Oracle: nothing in the
server/manager mentions an ended transport or its session ids, and with all
transports gone the server equals a fresh one.
"""
import gc

from .. import app, common, e1
from ..worlds import ServerWorld

LEVEL = 'fault_enumeration'
NSS = ['/', '/x']
MALFORMED = ['9', '2["ev"', '2/x,{"a":1}', '51-["ev",{"_placeholder":true,'
             '"num":5}]', '4"boom"', '']


def generic_snapshot(w):
    """Walk server + manager __dict__s generically (minus engine.io,
    loggers, handlers and static config)."""
    sio = w.sio
    skip = {'eio', 'logger', 'handlers', 'namespace_handlers', 'manager',
            'packet_class', 'not_handled', 'async_handlers',
            'always_connect', 'namespaces', 'async_mode',
            'manager_initialized'}
    out = {}
    for k, v in vars(sio).items():
        if k in skip or callable(v):
            continue
        out['server.' + k] = _freeze(v, w)
    for k, v in vars(sio.manager).items():
        if k in ('logger', 'server'):
            continue
        out['manager.' + k] = _freeze(v, w)
    return out


def _freeze(v, w, depth=0):
    n = w.namer.norm
    if depth > 6:
        return '<deep>'
    if isinstance(v, dict) or hasattr(v, 'items'):
        try:
            items = list(v.items())
        except Exception:
            return repr(type(v))
        return sorted(((repr(n(k)), _freeze(x, w, depth + 1))
                       for k, x in items), key=repr)
    if isinstance(v, (list, tuple, set, frozenset)):
        return sorted((_freeze(x, w, depth + 1) for x in v), key=repr)
    if isinstance(v, (str, int, float, bool, bytes)) or v is None:
        return repr(n(v))
    return '<' + type(v).__name__ + '>'


def graph_size(sio):
    """Number of container slots reachable from the server, engine.io
    excluded."""
    seen = set()
    stack = [vars(sio)[k] for k in vars(sio) if k not in ('eio', 'logger')]
    stack.append(vars(sio.manager))
    total = 0
    while stack:
        o = stack.pop()
        if id(o) in seen:
            continue
        seen.add(id(o))
        if isinstance(o, dict):
            total += len(o)
            stack.extend(o.keys())
            stack.extend(o.values())
        elif isinstance(o, (list, tuple, set, frozenset)):
            total += len(o)
            stack.extend(o)
        elif hasattr(o, '_fwdm'):
            stack.append(o._fwdm)
            stack.append(o._invm)
        elif hasattr(o, '__dict__') and type(o).__module__.startswith(
                'socketio'):
            if type(o).__name__ in ('Server', 'AsyncServer'):
                continue
            stack.append(vars(o))
    return total


class Model:
    def __init__(self, is_async, always_connect, faults, T=2, seed=0):
        self.is_async = is_async
        self.always_connect = always_connect
        self.faults = faults
        self.T = T

    def initial(self):
        w = ServerWorld(is_async=self.is_async, namespaces=list(NSS),
                        always_connect=self.always_connect,
                        async_handlers=False)
        app.install(w, 'func', list(NSS), events=('ev',))
        w.violations = []
        w.fresh = generic_snapshot(w)
        for _ in range(self.T):
            w.new_transport()
        w.alive = [True] * self.T
        w.conn = {}          # (t, ns) -> sid
        w.gone_sids = []     # [(sid, ns, eio_sid)]
        w.faults_used = 0
        w.partial = {}       # t -> remaining attachments
        w.wedged = set()     # transports whose own stream is unusable
        w.cb = 0
        w.drain_all()
        w.take_log()
        w.all_log = []
        return w

    def close(self, w):
        w.close()

    def ops(self, w):
        ops = []
        armed = bool(w.script.get('raise'))
        if w.faults_used < self.faults and not armed:
            ops.append(('fault-next',))
        for t in range(self.T):
            if not w.alive[t]:
                continue
            ops.append(('loss', t))
            ops.append(('eio-close', t))
            if t in w.wedged:
                continue     # only loss / eio-close make sense any more
            if t in w.partial:
                ops.append(('att', t))
                continue
            if t == 0:
                for i in range(len(MALFORMED)):
                    ops.append(('malformed', t, i))
            for ns in (NSS if t == 0 else NSS[:1]):
                if (t, ns) not in w.conn:
                    ops.append(('connect', t, ns, 'accept'))
                    if t == 0:
                        ops.append(('connect', t, ns, 'false'))
                        ops.append(('connect', t, ns, 'cre2'))
                        ops.append(('connect', t, ns, 'creb'))
                    ops.append(('event', t, ns))   # not connected: ignored
                else:
                    ops.append(('cdisc', t, ns))
                    ops.append(('sdisc', t, ns))
                    if t == 0:
                        ops.append(('event', t, ns))
                        ops.append(('enter', t, ns))
                        ops.append(('emitcb', t, ns))
                        ops.append(('hdr', t, ns, 1))
                        ops.append(('hdr', t, ns, 2))
                        ops.append(('connect', t, ns, 'accept'))  # duplicate
        for i, (sid, ns, eio_sid) in enumerate(w.gone_sids[-2:]):
            for apiname in ('enter_room', 'leave_room', 'emit', 'disconnect',
                            'save_session', 'close_own_room'):
                ops.append(('stale', apiname, len(w.gone_sids[-2:]) - 1 - i))
        for (t, ns), sid in sorted(w.conn.items()):
            other = [n for n in NSS if n != ns][0]
            if (t, other) not in w.conn and t == 0:
                ops.append(('wrong-ns-enter', t, ns))
        return ops

    def _bad(self, w, key, msg):
        w.violations.append(('C11/' + key, msg))

    def _cause(self, w, text):
        """Minimal distinguishing feature of a residue witness."""
        if 'late-room' in text:
            return '/stale-enter-room'
        if any(e[0] == 'raised' and e[1] == 'disconnect'
               for e in w.all_log):
            return '/disconnect-handler-raised'
        if any(e[0] == 'raised' and e[1] == 'connect' for e in w.all_log):
            return '/connect-handler-raised'
        return ''

    def _gone(self, w, t, ns):
        sid = w.conn.pop((t, ns), None)
        if sid is not None:
            w.gone_sids.append((sid, ns, w.eio_sid(t)))

    def apply(self, w, op):
        kind = op[0]
        if kind == 'fault-next':
            w.script['raise'] = {getattr(w, 'invocations', 0) + 1}
            w.faults_used += 1
            return
        if kind == 'connect':
            _, t, ns, outcome = op
            w.script['connect'] = outcome
            n0 = len(w.namer.names)
            w.recv_packet(t, 0, ns)
            sid = w.sid_of(t, ns)
            if (t, ns) not in w.conn:
                if sid is not None and w.sio.manager.is_connected(sid, ns):
                    w.conn[(t, ns)] = sid
                else:
                    # refused (or the handler raised): whatever sid was
                    # allocated for it must be gone
                    for raw, name in list(w.namer.names.items())[n0:]:
                        w.gone_sids.append((raw, ns, w.eio_sid(t)))
        elif kind == 'cdisc':
            _, t, ns = op
            w.recv_packet(t, 1, ns)
            self._gone(w, t, ns)
        elif kind == 'sdisc':
            _, t, ns = op
            w.api('disconnect', w.conn[(t, ns)], namespace=ns)
            self._gone(w, t, ns)
        elif kind in ('loss', 'eio-close'):
            _, t = op
            if kind == 'loss':
                w.lose(t, 'transport error')
            else:
                w.eio_close(t)
            for ns in NSS:
                self._gone(w, t, ns)
            w.alive[t] = False
            w.partial.pop(t, None)
            if not any(w.alive) and len(w.transports) < self.T + 2:
                pass
        elif kind == 'event':
            _, t, ns = op
            w.recv_packet(t, 2, ns, 3, ['ev', 1])
        elif kind == 'enter':
            _, t, ns = op
            w.api('enter_room', w.conn[(t, ns)], 'room', namespace=ns)
        elif kind == 'emitcb':
            _, t, ns = op
            w.cb += 1
            w.api('emit', 'q', w.cb, to=w.conn[(t, ns)], namespace=ns,
                  callback=lambda *a: None)
        elif kind == 'hdr':
            _, t, ns, natt = op
            data = ['ev', b'a'] if natt == 1 else ['ev', b'a', b'b']
            frames = w.encode(2, ns, None, data)
            w.recv(t, frames[0])
            w.partial[t] = frames[1:]
        elif kind == 'att':
            _, t = op
            left = w.partial[t]
            w.recv(t, left.pop(0))
            if not left:
                del w.partial[t]
        elif kind == 'malformed':
            _, t, i = op
            w.recv(t, MALFORMED[i])
            if MALFORMED[i][:1] in ('5', '6'):
                # a syntactically valid binary header whose placeholder is
                # out of range: the offender's own stream is wedged from now
                # on (allowed); keep the ledger honest
                w.wedged.add(t)
        elif kind == 'wrong-ns-enter':
            _, t, ns = op
            other = [n for n in NSS if n != ns][0]
            w.api('enter_room', w.conn[(t, ns)], 'room', namespace=other)
            w.api('save_session', w.conn[(t, ns)], {'x': 1}, namespace=other)
        elif kind == 'stale':
            _, apiname, back = op
            sid, ns, _e = w.gone_sids[-1 - back]
            if apiname == 'enter_room':
                w.api('enter_room', sid, 'late-room', namespace=ns)
            elif apiname == 'leave_room':
                w.api('leave_room', sid, 'room', namespace=ns)
            elif apiname == 'emit':
                w.api('emit', 'late', 1, to=sid, namespace=ns,
                      callback=lambda *a: None)
            elif apiname == 'disconnect':
                w.api('disconnect', sid, namespace=ns)
            elif apiname == 'save_session':
                w.api('save_session', sid, {'late': 1}, namespace=ns)
            elif apiname == 'close_own_room':
                w.api('close_room', sid, namespace=ns)
        w.run_tasks() if not w.is_async else None
        w.drain_all()
        w.all_log = getattr(w, 'all_log', []) + w.take_log()
        self.invariant(w, op)

    # -- the oracle ----------------------------------------------------------
    def invariant(self, w, op):
        snap = generic_snapshot(w)
        text = repr(snap)
        n = w.namer.norm
        for t in range(self.T):
            if not w.alive[t]:
                name = n(w.eio_sid(t))
                for field, val in snap.items():
                    if name in repr(val):
                        self._bad(w, 'residue/' + field.split('.')[1] +
                                  self._cause(w, repr(val)),
                                  f'after {op}: ended transport {name} still '
                                  f'referenced by {field} = {val!r}')
        for sid, ns, eio_sid in w.gone_sids:
            name = n(sid)
            for field, val in snap.items():
                if name in repr(val):
                    self._bad(w, 'residue/' + field.split('.')[1] +
                              self._cause(w, repr(val)),
                              f'after {op}: gone sid {name} still referenced '
                              f'by {field} = {val!r}')
            if w.sio.manager.is_connected(sid, ns):
                self._bad(w, 'residue/connected', f'gone sid {name} is '
                          'still connected')
        if not any(w.alive):
            if snap != w.fresh:
                diff = {k: (snap.get(k), w.fresh.get(k))
                        for k in set(snap) | set(w.fresh)
                        if snap.get(k) != w.fresh.get(k)}
                for k in diff:
                    self._bad(w, 'not-fresh/' + k.split('.')[1] +
                              self._cause(w, repr(diff[k][0])),
                              f'after {op}: all clients gone but {k} = '
                              f'{diff[k][0]!r} (fresh server: '
                              f'{diff[k][1]!r})')
            if list(w.sio.manager.get_namespaces()):
                self._bad(w, 'not-fresh/namespaces', f'after {op}: '
                          f'get_namespaces() = '
                          f'{list(w.sio.manager.get_namespaces())!r}')

    def canon(self, w):
        snap = generic_snapshot(w)
        return (repr(snap), tuple(w.alive), tuple(sorted(w.conn)),
                tuple(sorted((t, len(v)) for t, v in w.partial.items())),
                tuple(sorted(w.wedged)),
                w.faults_used, bool(w.script.get('raise')),
                min(len(w.gone_sids), 2))


def factory(**params):
    return Model(**params)


e1.register('c11', factory)


def growth_run(is_async, generations):
    """One deterministic run of n identical client generations; returns the
    reachable-object count afterwards."""
    w = ServerWorld(is_async=is_async, namespaces=list(NSS),
                    async_handlers=False)
    app.install(w, 'func', list(NSS), events=('ev',))
    for g in range(generations):
        t = w.new_transport()
        for ns in NSS:
            w.recv_packet(t, 0, ns)
        sid = w.sid_of(t, '/')
        w.api('enter_room', sid, 'room')
        w.recv_packet(t, 2, '/', 1, ['ev', g])
        w.api('emit', 'q', g, to=sid, callback=lambda *a: None)
        w.recv_packet(t, 1, '/x')
        w.recv_packet(t, 0, '/x')
        w.lose(t)
        w.drain(t)
    w.take_log()
    gc.collect()
    size = graph_size(w.sio)
    w.transports.clear()
    w.close()
    return size


def run(tier, seed, result):
    notes = []
    closure = True
    depth = 5 if tier == 'quick' else 7
    faults = 1 if tier == 'quick' else 2
    for is_async in (False, True):
        for ac in (False, True):
            params = dict(is_async=is_async, always_connect=ac,
                          faults=faults, seed=seed)
            st = e1.explore('c11', params, result, max_depth=depth)
            closure = closure and st['closure']
            notes.append(f'async={is_async} always_connect={ac}: {st}')
    for is_async in (False, True):
        a, b = growth_run(is_async, 4), growth_run(is_async, 8)
        result.add('growth_runs', 2)
        if a != b:
            result.violation('C11/growth', f'object graph reachable from the '
                             f'server: {a} slots after 4 client generations, '
                             f'{b} after 8 (async={is_async})',
                             {'replay': {'module': 'mc.checks.c11',
                                         'func': 'replay_growth',
                                         'args': [is_async]}})
    from . import c11_sched
    notes.append(c11_sched.run(tier, seed, result))
    from . import c11_threads
    notes.append(c11_threads.run(tier, seed, result))
    result.cov['evaluations'] = result.cov.get('transitions', 0)
    result.cov['distinct_nontrivial'] = result.cov.get('states', 0)
    result.sample({'history': [['connect', 0, '/', 'accept'],
                               ['hdr', 0, '/', 2], ['att', 0], ['loss', 0]]})
    result.assumptions += [
        'engine.io state (server.eio) is a dependency and excluded from the '
        'snapshot; sessions die with the engine.io socket',
        f'histories up to depth {depth}, at most {faults} injected handler '
        'fault(s) per history',
        'growth is decided structurally (equality with a fresh server) plus '
        'a two-point reachable-object count',
    ]
    return dict(
        rule='BFS over client histories (connect accept/refuse/duplicate, '
             'events, rooms, unanswered callbacks, partial binary packets, 6 '
             'malformed frames, stale-sid API calls, wrong-namespace calls) '
             'x every ending cause at every position x "next handler '
             'invocation raises" faults; non-trivial/distinct = canonical '
             'generic snapshot of server+manager; E2: every interleaving '
             'of one client\'s traffic with server disconnect() and '
             'transport loss on AsyncServer (handlers and transport writes '
             'suspended), ending in the fresh-server comparison',
        explanation=' | '.join(notes) + (
            '' if closure else f' | depth cap {depth} reached: all histories '
            'up to that depth were covered'),
        exhaustive=closure)


def replay_growth(is_async):
    common.setup_imports()
    a, b = growth_run(is_async, 4), growth_run(is_async, 8)
    return [('C11/growth', f'{a} vs {b}')] if a != b else []
