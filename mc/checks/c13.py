"""C13 Handler resolution follows the documented precedence (E4 over all 2^6
registries x classes x handler styles)."""
import socketio

from .. import common
from ..par import pmap
from ..worlds import ServerWorld
from ..cworld import ClientWorld

LEVEL = 'exploration'

TARGETS = ['H(ns,ev)', 'H(ns,*)', 'H(*,ev)', 'H(*,*)', 'NS(ns)', 'NS(*)']
ARGSETS = [[], [1], ['a', {'b': 2}]]
VARIANTS = [('Server', False), ('AsyncServer', False), ('AsyncServer', True),
            ('Client', False), ('AsyncClient', False), ('AsyncClient', True),
            ('AsyncServer', 'mixed'), ('AsyncClient', 'mixed')]
OTHER_NS = '/second'
# ordinary event names that merely look special: prefixes of the reserved
# names, mixed case (class-based methods are looked up by exact name)
EXTRA_SERVER = ['connected', 'connect_error', 'disconnect_all', 'userJoined']
EXTRA_CLIENT = ['connected', 'disconnect_all', 'userJoined']
# names nobody registered, differing from registered ones by case only
UNREGISTERED = ['EV', 'userjoined', 'Connect']


def expected_target(mask, event, reserved):
    """Reference 4.6: first present target in the documented order; reserved
    events are never routed to a catch-all *event* handler."""
    for i in range(6):
        if not mask & (1 << i):
            continue
        if reserved and i in (1, 3):
            continue
        return i
    return None


def expected_args(i, event, ns, normal):
    normal = tuple(normal)
    return {0: normal, 1: (event,) + normal, 2: (ns,) + normal,
            3: (event, ns) + normal, 4: normal, 5: (ns,) + normal}[i]


def build_registry(obj, is_server, is_async_cls, coro, mask, other, ns, log,
                   events):
    """Register the targets selected by mask; every target records
    (target index, event-as-routed, args)."""
    def fn(i, ev):
        if coro is True or (coro == 'mixed' and i % 2 == 1):
            async def h(*a):
                log.append((i, ev, a))
        else:
            def h(*a):
                log.append((i, ev, a))
        return h
    for ev in events:
        if mask & 1:
            obj.on(ev, fn(0, ev), namespace=ns)
        if mask & 4:
            obj.on(ev, fn(2, ev), namespace='*')
    if mask & 2:
        obj.on('*', fn(1, '*'), namespace=ns)
    if mask & 8:
        obj.on('*', fn(3, '*'), namespace='*')
    if other in (True, 'ns', 'both'):
        obj.on('unrelated', fn(9, 'unrelated'), namespace=ns)
    if other in ('star', 'both'):
        obj.on('unrelated2', fn(9, 'unrelated2'), namespace='*')
    if coro == 'mixed':
        # the same event names are also handled on another namespace by a
        # handler of the *other* kind than the one chosen for `ns`
        chosen = expected_target(mask, 'ev', False)
        opposite_is_coro = not (chosen is not None and chosen % 2 == 1)
        for ev in events:
            def mk2(ev):
                if opposite_is_coro:
                    async def h2(*a):
                        log.append((7, ev, a))
                else:
                    def h2(*a):
                        log.append((7, ev, a))
                return h2
            obj.on(ev, mk2(ev), namespace=OTHER_NS)
    if is_server:
        base = socketio.AsyncNamespace if is_async_cls else socketio.Namespace
    else:
        base = socketio.AsyncClientNamespace if is_async_cls else \
            socketio.ClientNamespace

    def mkclass(i):
        d = {}
        for ev in events:
            def mk(ev):
                if coro is True or (coro == 'mixed' and i % 2 == 1):
                    async def m(self, *a):
                        log.append((i, 'on_' + ev, a))
                else:
                    def m(self, *a):
                        log.append((i, 'on_' + ev, a))
                return m
            d['on_' + ev] = mk(ev)
        return type('NS%d' % i, (base,), d)
    if mask & 16:
        obj.register_namespace(mkclass(4)(ns))
    if mask & 32:
        obj.register_namespace(mkclass(5)('*'))


def check_dispatch(viols, what, log, mask, event, reserved, ns, normal):
    i = expected_target(mask, event, reserved)
    if i is None:
        exp = []
    else:
        routed = '*' if i in (1, 3) else (event if i < 4 else 'on_' + event)
        exp = [(i, routed, expected_args(i, event, ns, normal))]
    if log != exp:
        key = 'C13/%s/%s' % (what.split()[0], 'reserved' if reserved
                             else 'ordinary')
        got = [(TARGETS[e[0]] if e[0] < 6 else 'unrelated', e[1], e[2])
               for e in log]
        want = [(TARGETS[e[0]], e[1], e[2]) for e in exp]
        viols.append((key, f'{what}: event {event!r} on {ns}: ran {got!r}, '
                      f'documented target {want!r}'))


def run_server(cls, coro, mask, other, ns):
    viols = []
    is_async = cls == 'AsyncServer'
    w = ServerWorld(is_async=is_async, namespaces='*')
    log = []
    build_registry(w.sio, True, is_async, coro, mask, other, ns, log,
                   ['connect', 'disconnect', 'ev'] + EXTRA_SERVER)
    what = f'{cls}{"/" + str(coro) if coro else ""} mask={mask:06b} ' \
           f'other={other}'
    t = w.new_transport(environ={'env': 1})
    w.recv_packet(t, 0, ns)
    sid = w.sid_of(t, ns)
    if sid is None:
        viols.append(('C13/server/connect', f'{what}: CONNECT refused'))
        w.close()
        return viols
    check_dispatch(viols, what, log[:], mask, 'connect', True, ns,
                   (sid, {'env': 1}))
    for args in ARGSETS:
        del log[:]
        w.recv_packet(t, 2, ns, None, ['ev'] + args)
        check_dispatch(viols, what, log[:], mask, 'ev', False, ns,
                       (sid,) + tuple(args))
    for ev in EXTRA_SERVER:
        del log[:]
        w.recv_packet(t, 2, ns, None, [ev, 1])
        check_dispatch(viols, what, log[:], mask, ev, False, ns, (sid, 1))
    for ev in UNREGISTERED:
        # only catch-all *event* handlers are responsible for a name that
        # was never registered (a class-based namespace has no such method)
        del log[:]
        w.recv_packet(t, 2, ns, None, [ev, 1])
        check_dispatch(viols, what + ' (unregistered name)', log[:],
                       mask & 0b001010, ev, False, ns, (sid, 1))
    if coro == 'mixed':
        # the same event on the other namespace, after it was seen on `ns`
        del log[:]
        w.recv_packet(t, 0, OTHER_NS)
        sid2 = w.sid_of(t, OTHER_NS)
        del log[:]
        w.recv_packet(t, 2, OTHER_NS, None, ['ev', 5])
        if log != [(7, 'ev', (sid2, 5))]:
            viols.append(('C13/server/mixed-styles', f'{what}: after "ev" '
                          f'was dispatched on {ns}, the handler of the other '
                          f'kind on {OTHER_NS} saw {log!r}'))
        del log[:]
        w.recv_packet(t, 2, ns, None, ['ev', 6])
        check_dispatch(viols, what, log[:], mask, 'ev', False, ns,
                       (sid, 6))
    del log[:]
    w.recv_packet(t, 1, ns)
    check_dispatch(viols, what, log[:], mask, 'disconnect', True, ns,
                   (sid, 'client disconnect'))
    w.close()
    return viols


def run_client(cls, coro, mask, other, ns):
    viols = []
    is_async = cls == 'AsyncClient'
    what = f'{cls}{"/coro" if coro else ""} mask={mask:06b} other={other}'
    events = ['connect', 'disconnect', 'connect_error', 'ev'] + EXTRA_CLIENT
    # 1. accepted connection: connect / ev / disconnect
    w = ClientWorld(is_async=is_async, reconnection=False)
    log = []
    build_registry(w.c, False, is_async, coro, mask, other, ns, log, events)
    nsp = '' if ns == '/' else ns + ','
    if coro == 'mixed':
        r = w.connect(script=[['0%s{"sid":"S"}' % nsp],
                              ['0%s,{"sid":"S2"}' % OTHER_NS]],
                      namespaces=[ns, OTHER_NS])
        log[:] = [e for e in log if e[0] != 7]
    else:
        r = w.connect(script=[['0%s{"sid":"S"}' % nsp]], namespaces=[ns])
    if r[0] != 'ok':
        viols.append(('C13/client/connect', f'{what}: connect failed {r}'))
        w.close()
        return viols
    check_dispatch(viols, what, log[:], mask, 'connect', True, ns, ())
    for args in ARGSETS:
        del log[:]
        w.deliver_packet(2, ns, None, ['ev'] + args)
        check_dispatch(viols, what, log[:], mask, 'ev', False, ns,
                       tuple(args))
    for ev in EXTRA_CLIENT:
        del log[:]
        w.deliver_packet(2, ns, None, [ev, 1])
        check_dispatch(viols, what, log[:], mask, ev, False, ns, (1,))
    for ev in UNREGISTERED:
        del log[:]
        w.deliver_packet(2, ns, None, [ev, 1])
        check_dispatch(viols, what + ' (unregistered name)', log[:],
                       mask & 0b001010, ev, False, ns, (1,))
    if coro == 'mixed':
        del log[:]
        w.deliver_packet(2, OTHER_NS, None, ['ev', 5])
        if log != [(7, 'ev', (5,))]:
            viols.append(('C13/client/mixed-styles', f'{what}: after "ev" '
                          f'was dispatched on {ns}, the handler of the other '
                          f'kind on {OTHER_NS} saw {log!r}'))
        del log[:]
        w.deliver_packet(2, ns, None, ['ev', 6])
        check_dispatch(viols, what, log[:], mask, 'ev', False, ns, (6,))
    del log[:]
    w.deliver_packet(1, ns)
    check_dispatch(viols, what,
                   [e for e in log if 'disconnect_final' not in str(e[1])],
                   mask, 'disconnect', True, ns, ('server disconnect',))
    w.close()
    # 2. refused connection: connect_error
    w = ClientWorld(is_async=is_async, reconnection=False)
    log = []
    build_registry(w.c, False, is_async, coro, mask, other, ns, log, events)
    r = w.connect(script=[['4%s{"message":"no"}' % nsp]], namespaces=[ns])
    check_dispatch(viols, what, [e for e in log
                                 if 'disconnect' not in str(e[1])],
                   mask, 'connect_error', True, ns, ({'message': 'no'},))
    w.close()
    return viols


def job(args):
    vi, nsname = args
    common.setup_imports()
    cls, coro = VARIANTS[vi]
    out = []
    n = 0
    nontrivial = 0
    for mask in range(64):
        for other in (False, 'ns', 'star', 'both'):
            if cls.endswith('Server'):
                v = run_server(cls, coro, mask, other, nsname)
                n += 5
            else:
                v = run_client(cls, coro, mask, other, nsname)
                n += 6
            if mask:
                nontrivial += 1
            for key, msg in v:
                out.append((key, msg, {'replay': {
                    'module': 'mc.checks.c13', 'func': 'replay',
                    'args': [vi, nsname, mask, other]}}))
    return n, nontrivial, out


def replay(vi, nsname, mask, other):
    common.setup_imports()
    cls, coro = VARIANTS[vi]
    if cls.endswith('Server'):
        return run_server(cls, coro, mask, other, nsname)
    return run_client(cls, coro, mask, other, nsname)


def run(tier, seed, result):
    names = common.rotate(['/', '/ns1', '/a/b', '/chat'], seed)[:2]
    if '/' not in names:
        names[0] = '/'
    jobs = [(vi, ns) for vi in range(len(VARIANTS)) for ns in names]
    for n, nontrivial, viols in pmap(job, jobs):
        result.add('evaluations', n)
        result.add('distinct_nontrivial', nontrivial)
        for key, msg, wit in viols:
            result.violation(key, msg, wit)
    result.sample({'variant': 'Client', 'mask': '001101', 'other': True,
                   'namespace': names[1], 'events': ['connect', 'ev x3 arg '
                                                     'lists', 'disconnect',
                                                     'connect_error']})
    result.assumptions += [
        'events are injected as real packets through the server/client '
        'worlds (reserved events through CONNECT / DISCONNECT / '
        'CONNECT_ERROR packets)',
    ]
    return dict(
        rule='all 2^6 presence/absence combinations of the six target kinds '
             'x {unrelated handler on the namespace / on the catch-all '
             'namespace / both / none} x 6 class/'
             'handler-style variants x 2 namespace names; each registry is '
             'driven with connect, 3 ordinary events (0-2 arguments), '
             'disconnect (and connect_error on clients). Non-trivial = '
             'registry with at least one target.',
        explanation='complete enumeration of the stated product',
        exhaustive=True)
