"""C06 (E2): AsyncServer, emit with a (coroutine) callback, concurrent
duplicate ACKs / disconnects; every interleaving at callback suspension
points."""
import itertools

from .. import common, e2
from ..worlds import ServerWorld, eio_packet
from ..par import pmap

ENV = ['ack', 'ack2', 'cdisc', 'loss']


def scenario_for(env, coro_cb):
    def scenario(loop):
        w = ServerWorld(is_async=True, loop=loop, namespaces=['/'])
        sio = w.sio
        t = w.new_transport()
        w.recv_packet(t, 0, '/')
        sock = w.transports[t]
        sid = w.sid_of(t, '/')
        fired = []
        marks = []
        if coro_cb:
            async def cb(*args):
                fired.append(args)
                await loop.point('cb-in')
                await loop.point('cb-out')
        else:
            def cb(*args):
                fired.append(args)
        w.run(sio.emit, 'q', 1, to=sid, callback=cb)
        frames = [f for f in w.drain(t) if f[0] == 'pkt' and f[1] == 2]
        id = frames[0][3]

        async def do(name):
            await loop.point('start:' + name)
            if name in ('ack', 'ack2'):
                marks.append((name, sio.manager.is_connected(sid, '/')))
                await sock.receive(eio_packet.Packet(
                    eio_packet.MESSAGE, '3%d["%s"]' % (id, name)))
            elif name == 'cdisc':
                await sock.receive(eio_packet.Packet(eio_packet.MESSAGE, '1'))
                marks.append(('gone',))
            elif name == 'loss':
                await sock.close(wait=False, abort=True,
                                 reason='transport close')
                marks.append(('gone',))
        for name in env:
            loop.create_task(do(name))

        def finish(hit):
            return {'fired': fired, 'marks': marks, 'horizon': hit,
                    'errors': loop.collect_errors(),
                    'parked': [lb for lb, f in loop.parked if not f.done()],
                    'left': sorted(repr(k) for k in __import__(
                        'mc.introspect', fromlist=['x']).callbacks_of(
                            sio.manager).get(sid, {}))}
        return finish
    return scenario


def judge(env, out):
    v = []
    if out['horizon'] or out['parked']:
        return [('C06/sched-stuck', f'{out}')]
    if out['errors']:
        v.append(('C06/sched-loop-error', f'{out["errors"]}'))
    if len(out['fired']) > 1:
        v.append(('C06/fired-twice', f'callback fired {len(out["fired"])} '
                  f'times: {out["fired"]} (env {env})'))
    acks = [m for m in out['marks'] if m[0] in ('ack', 'ack2')]
    valid = [m for m in acks if m[1]]
    if out['fired']:
        first = acks[0][0] if acks else None
        if not valid:
            v.append(('C06/fired-after-disconnect', f'callback fired though '
                      f'no ACK arrived while connected: {out}'))
        elif out['fired'][0] != (valid[0][0],):
            v.append(('C06/callback-args', f'callback got {out["fired"][0]},'
                      f' first valid ACK carried ({valid[0][0]!r},)'))
    elif valid:
        v.append(('C06/callback-lost', f'a valid ACK did not fire the '
                  f'callback: {out}'))
    return v


def job(args):
    env, coro = args
    common.setup_imports()
    viols = []
    outs = set()

    def on(choices, out):
        outs.add(repr(out['fired']))
        for key, msg in judge(env, out):
            if len(viols) < 3:
                viols.append((key, msg, {'replay': {
                    'module': 'mc.checks.c06_sched', 'func': 'replay',
                    'args': [list(env), coro, [c[1] for c in choices]]}}))
    st = e2.explore(scenario_for(env, coro), on)
    return env, st, viols, len(outs)


def replay(env, coro, prefix):
    common.setup_imports()
    choices, out = e2.run_one(scenario_for(tuple(env), coro), list(prefix))
    return judge(tuple(env), out)


def run(tier, seed, result):
    jobs = []
    for k in (1, 2, 3):
        for env in itertools.combinations(ENV, k):
            if 'ack' not in env and 'ack2' in env:
                continue
            for coro in (True, False):
                jobs.append((env, coro))
    total = 0
    for env, st, viols, n in pmap(job, jobs):
        total += st['executions']
        if not st['complete']:
            raise common.HarnessError('C06 schedule exploration capped')
        for key, msg, wit in viols:
            result.violation(key, msg, wit)
    result.add('schedules', total)
    result.add('states', total)
    result.add('transitions', total)
    return f'emit+callback on AsyncServer under concurrent ACK/duplicate ' \
           f'ACK/disconnect: {total} schedules, all interleavings'
