"""C14 The asyncio classes behave exactly like their threaded counterparts.

Lockstep E1: every transition applies the same operation to a threaded world
and to its asyncio twin and compares the complete normalised observation
vectors (frames per peer in per-peer order, handler and callback log, API
results / exception types and messages, manager snapshot, published pub/sub
messages).  Models: servers (c14s), clients (c14c), pub/sub clusters (c14p),
plus scripted SimpleClient scenarios.
"""
import pickle

from .. import app, common, e1
from ..cluster import Cluster
from ..cworld import ClientWorld
from ..introspect import callbacks_of, client_partial_packet
from ..worlds import ServerWorld

NSS = ['/', '/x']
RETS = [None, 0, '', False, [], 'txt', (1, 'two'), (), b'byt',
        {'n': [b'x']}, {}]
MALFORMED = ['9', '2["ev"', '2/x,{"a":1}', '4"boom"', '', '2[]', '2[1]',
             '51-["ev",{"_placeholder":true,"num":5}]', '3/x,[]', '30[]',
             '2/nope,["ev"]', '0/nope,', '1/nope,', 'x']


class Twin:
    def __init__(self, make):
        self.s = make(False)
        self.a = make(True)
        self.violations = []

    def both(self, fn):
        return fn(self.s), fn(self.a)


class ServerModel:
    def __init__(self, always_connect, kind, seed=0, T=2):
        self.always_connect = always_connect
        self.kind = kind
        self.T = T
        self.rets = common.rotate(RETS, seed)

    def initial(self):
        def make(is_async):
            w = ServerWorld(is_async=is_async, namespaces=list(NSS),
                            always_connect=self.always_connect,
                            async_handlers=False)
            app.install(w, self.kind, list(NSS), events=('ev', 'ret'))
            for _ in range(self.T):
                w.new_transport()
            w.slot = list(range(self.T))
            w.cb = []
            return w
        tw = Twin(make)
        tw.conn = set()
        tw.pend = {}          # slot -> frames left of a binary packet
        tw.ncb = 0
        tw.outstanding = {}   # (slot, ns) -> ids seen on emitted events
        tw.emitted = {}       # (slot, ns) -> emits with callback so far
        tw.groupcb = 0        # callback emits addressed to a whole namespace
        self.compare(tw, 'initial')
        return tw

    def close(self, tw):
        tw.s.close()
        tw.a.close()

    def ops(self, tw):
        ops = []
        for s in range(self.T):
            ops.append(('loss', s))
            if s in tw.pend:
                ops.append(('att', s))
                ops.append(('att-after-stray', s))
                continue
            for ns in NSS:
                if (s, ns) not in tw.conn:
                    ops.append(('connect', s, ns, 'accept', 1))
                    if s == 0:
                        ops.append(('connect', s, ns, 'cre2', 0))
                        ops.append(('connect', s, ns, 'false', 1))
                        ops.append(('connect', s, ns, 'boom', 0))
                else:
                    ops.append(('cdisc', s, ns))
                    ops.append(('sdisc', s, ns))
                    ops.append(('enter', s, ns))
                    ops.append(('leave', s, ns))
                    if s == 0:
                        ops.append(('hdr', s, ns))
                    if s == 0 or ns == '/':
                        if tw.emitted.get((s, ns), 0) < (2 if s == 0 else 1):
                            ops.append(('emitcb', s, ns))
                    if s == 0:
                        ops.append(('save', s, ns))
                        for id in sorted(tw.outstanding.get((s, ns),
                                                            ()))[:2]:
                            ops.append(('ack', s, ns, id))
        for ns in NSS:
            ops.append(('close', ns))
            if tw.groupcb < 1 and sum(1 for c in tw.conn if c[1] == ns) > 1:
                ops.append(('emitcb-all', ns))
        return ops

    def _bad(self, tw, key, msg):
        tw.violations.append(('C14/' + key, msg))

    def _do(self, tw, what, fn):
        """Apply fn to both twins, compare results and observations."""
        rs, ra = tw.both(fn)
        rs, ra = tw.s.namer.norm(rs), tw.a.namer.norm(ra)
        if _res(rs) != _res(ra):
            self._bad(tw, 'server/result', f'{what}: Server gave '
                      f'{_res(rs)!r}, AsyncServer {_res(ra)!r}')
        return self.compare(tw, what)

    def compare(self, tw, what):
        obs = []
        for w in (tw.s, tw.a):
            frames = [[f for f in w.drain(t) if f != ('eio', 'END')]
                      for t in range(len(w.transports))]
            obs.append({'frames': frames, 'log': w.take_log(),
                        'snap': w.snapshot(), 'cb': list(w.cb),
                        'task_errors': [e.split('(')[0]
                                        for e in w.task_errors]})
            del w.cb[:]
            del w.task_errors[:]
        for k in ('frames', 'log', 'snap', 'cb'):
            if obs[0][k] != obs[1][k]:
                self._bad(tw, 'server/' + k, f'after {what}: Server {k} = '
                          f'{obs[0][k]!r:.500}, AsyncServer '
                          f'{obs[1][k]!r:.500}')
        return obs[0]

    def apply(self, tw, op):
        kind = op[0]
        if kind == 'connect':
            _, s, ns, outcome, auth = op

            def f(w):
                w.script['connect'] = outcome
                return w.recv_packet(w.slot[s], 0, ns, None,
                                     {'a': 1} if auth else None)
            self._do(tw, op, f)
            if tw.s.sid_of(tw.s.slot[s], ns) is not None:
                tw.conn.add((s, ns))
        elif kind == 'cdisc':
            _, s, ns = op
            self._do(tw, op, lambda w: w.recv_packet(w.slot[s], 1, ns))
            self._gone(tw, s, ns)
        elif kind == 'sdisc':
            _, s, ns = op
            self._do(tw, op, lambda w: w.api(
                'disconnect', w.sid_of(w.slot[s], ns), namespace=ns))
            self._gone(tw, s, ns)
        elif kind == 'loss':
            _, s = op

            def f(w):
                r = w.lose(w.slot[s], 'transport error')
                w.slot[s] = w.new_transport()
                return r
            self._do(tw, op, f)
            for ns in NSS:
                self._gone(tw, s, ns)
            tw.pend.pop(s, None)
        elif kind in ('enter', 'leave'):
            _, s, ns = op
            self._do(tw, op, lambda w: w.api(
                kind + '_room', w.sid_of(w.slot[s], ns), 'r', namespace=ns))
        elif kind == 'close':
            _, ns = op
            self._do(tw, op, lambda w: w.api('close_room', 'r',
                                             namespace=ns))
        elif kind == 'hdr':
            _, s, ns = op
            frames = tw.s.encode(2, ns, 4, ['ret', b'A', {'k': b'B'}])
            self._do(tw, op, lambda w: w.recv(w.slot[s], frames[0]))
            tw.pend[s] = frames[1:]
        elif kind == 'att':
            _, s = op
            f0 = tw.pend[s].pop(0)
            if not tw.pend[s]:
                del tw.pend[s]
            for w in (tw.s, tw.a):
                w.script['returns'] = {'ret': (b'r', 1)}
            self._do(tw, op, lambda w: w.recv(w.slot[s], f0))
        elif kind == 'att-after-stray':
            # a text frame arrives where an attachment is due (both twins
            # reject it), then the attachments that were due: one operation,
            # so that no state merge can separate the fault from what
            # follows it
            _, s = op
            stray = tw.s.encode(2, '/x', 9, ['ev', 'stray'])[0]
            self._do(tw, f'{op}: stray text frame',
                     lambda w: w.recv(w.slot[s], stray))
            for w in (tw.s, tw.a):
                w.script['returns'] = {'ret': (b'r', 1)}
            for f0 in tw.pend.pop(s):
                self._do(tw, f'{op}: attachment',
                         lambda w: w.recv(w.slot[s], f0))
        elif kind == 'emitcb':
            _, s, ns = op
            tw.ncb += 1
            k = tw.ncb
            tw.emitted[(s, ns)] = tw.emitted.get((s, ns), 0) + 1
            o = self._do(tw, op, lambda w: w.api(
                'emit', 'q', k, to=w.sid_of(w.slot[s], ns), namespace=ns,
                callback=lambda *a, w=w: w.cb.append((k, a))))
            for f in o['frames'][tw.s.slot[s]]:
                if f[0] == 'pkt' and f[1] == 2 and f[3] is not None:
                    tw.outstanding.setdefault((s, ns), set()).add(f[3])
        elif kind == 'emitcb-all':
            # a callback emit addressed to several clients (implemented,
            # if unsupported): both twins must still send the same packets
            _, ns = op
            tw.groupcb += 1
            o = self._do(tw, op, lambda w: w.api(
                'emit', 'qq', 0, namespace=ns,
                callback=lambda *a, w=w: w.cb.append(('all', a))))
            for s in range(self.T):
                for f in o['frames'][tw.s.slot[s]]:
                    if f[0] == 'pkt' and f[1] == 2 and f[3] is not None:
                        tw.outstanding.setdefault((s, ns), set()).add(f[3])
        elif kind == 'ack':
            _, s, ns, id = op
            self._do(tw, op, lambda w: w.recv_packet(w.slot[s], 3, ns, id,
                                                     ['ok', b'b']))
            tw.outstanding.get((s, ns), set()).discard(id)
        elif kind == 'save':
            _, s, ns = op
            self._do(tw, op, lambda w: w.api(
                'save_session', w.sid_of(w.slot[s], ns), {'u': s},
                namespace=ns))

    def _gone(self, tw, s, ns):
        tw.conn.discard((s, ns))
        tw.outstanding.pop((s, ns), None)
        tw.emitted.pop((s, ns), None)

    def future(self, tw):
        """Bounded look-ahead that makes the state merge sound: every
        connection is ended (each transport is lost) and the twins must keep
        agreeing.  Hidden per-connection state that only one twin keeps
        (tables filled at connect time, say) shows when the connection
        ends, whichever history the search kept as the representative of
        this state."""
        pre = len(tw.violations)
        for s in range(self.T):
            self.apply(tw, ('loss', s))
        return tuple(sorted({k for k, _ in tw.violations[pre:]}))

    def canon(self, tw):
        w = tw.s
        member = []
        saved = []
        for (s, ns) in sorted(tw.conn):
            sid = w.sid_of(w.slot[s], ns)
            member.append('r' in w.sio.rooms(sid, ns))
            saved.append(bool(w.transports[w.slot[s]].session.get(ns)))
        return (tuple(sorted(tw.conn)), tuple(member), tuple(saved),
                tuple(sorted((s, len(v)) for s, v in tw.pend.items())),
                tuple(sorted((k, tuple(sorted(v)))
                             for k, v in tw.outstanding.items() if v)),
                tuple(sorted(tw.emitted.items())), tw.groupcb)

    def probe(self, tw):
        k = 0
        for s in range(self.T):
            if s in tw.pend:
                continue
            for ns in NSS:
                for name in ('ev', 'ret', 'zz'):
                    for id in (None, 0, 3):
                        ret = self.rets[k % len(self.rets)]
                        k += 1
                        for w in (tw.s, tw.a):
                            w.script['returns'] = {name: ret}
                        args = [[], [1, 'a'], [b'bin', {'k': 1}]][k % 3]
                        self._do(tw, f'event {name} id={id} ret={ret!r} '
                                 f'slot {s} {ns}',
                                 lambda w: w.recv_packet(
                                     w.slot[s], 2, ns, id, [name] + args))
            if s == 0:
                for i, f in enumerate(MALFORMED):
                    if f[:1] in ('5', '6'):
                        continue
                    self._do(tw, f'malformed {f!r}',
                             lambda w: w.recv(w.slot[s], f))
                self._do(tw, 'stray binary',
                         lambda w: w.recv(w.slot[s], b'xyz'))
        for ns in NSS + ['/nope']:
            for to in (None, 'r', ['r', 'q']):
                self._do(tw, f'emit to={to} {ns}', lambda w: w.api(
                    'emit', 'e', (1, b'b'), to=to, namespace=ns))
            self._do(tw, f'send {ns}', lambda w: w.api(
                'send', {'m': 1}, namespace=ns, skip_sid='x'))
            # the application keeps one skip_sid list and one payload dict
            # and uses them for several emits: they are the application's,
            # nobody may write to them
            kept = {}

            def reuse(w):
                key = 'a' if w is tw.a else 's'
                if key not in kept:
                    first = [w.sid_of(w.slot[0], ns)] \
                        if (0, ns) in tw.conn else ['nobody']
                    kept[key] = (first, {'d': {'b': b'x'}}, list(first))
                skip, payload, orig = kept[key]
                r = w.api('emit', 'e', payload, namespace=ns, skip_sid=skip)
                if skip != orig or payload != {'d': {'b': b'x'}}:
                    return ('exc', 'ArgumentMutated',
                            f'skip_sid {w.namer.norm(skip)!r} payload '
                            f'{payload!r}')
                return r
            for rep in (1, 2):
                self._do(tw, f'emit #{rep} with a kept skip_sid list and '
                         f'payload on {ns}', reuse)
        for (s, ns) in sorted(tw.conn):
            self._do(tw, f'rooms {s}{ns}', lambda w: w.api(
                'rooms', w.sid_of(w.slot[s], ns), namespace=ns))
            self._do(tw, f'get_session {s}{ns}', lambda w: w.api(
                'get_session', w.sid_of(w.slot[s], ns), namespace=ns))
        # stale / wrong-namespace API calls: same exception on both
        for name, args in (('enter_room', ('ghost', 'r')),
                           ('leave_room', ('ghost', 'r')),
                           ('disconnect', ('ghost',)),
                           ('get_session', ('ghost',)),
                           ('save_session', ('ghost', {})),
                           ('call', ('e',)), ('rooms', ('ghost',))):
            self._do(tw, f'stale {name}', lambda w: w.api(name, *args))


def _res(r):
    """API results: value (normalised) or exception type + message."""
    if isinstance(r, list):
        return [_res(x) for x in r]
    if isinstance(r, tuple) and r and r[0] == 'ok':
        v = r[1]
        if isinstance(v, (list, dict, str, int, float, bool, type(None),
                          bytes)):
            return ('ok', repr(v))
        return ('ok', type(v).__name__)
    return r


class ClientModel:
    def __init__(self, seed=0):
        pass

    def initial(self):
        def make(is_async):
            w = ClientWorld(is_async=is_async, reconnection=False)
            c = w.c
            log = w.log
            for ns in NSS:
                def mk(ns):
                    def rec(name):
                        if is_async:
                            async def h(*a):
                                log.append((name, ns, a))
                                return w.ret
                        else:
                            def h(*a):
                                log.append((name, ns, a))
                                return w.ret
                        return h
                    for ev in ('connect', 'disconnect', 'connect_error',
                               'ev', '*'):
                        c.on(ev, rec(ev), namespace=ns)
                mk(ns)
            w.ret = None
            w.cbs = []
            return w
        tw = Twin(make)
        tw.up = False
        tw.gen = 0
        tw.ids = {}
        tw.emitted = {}
        tw.half = False
        return tw

    def close(self, tw):
        tw.s.close()
        tw.a.close()

    def _bad(self, tw, key, msg):
        tw.violations.append(('C14/' + key, msg))

    def ops(self, tw):
        ops = []
        if not tw.up:
            if tw.gen < 2:
                for sc in ('aa', 'ar', 'ra', 'a-', 'rr'):
                    ops.append(('connect', sc, True))
                ops.append(('connect', 'aa', False))
        else:
            ops += [('disconnect',), ('loss',), ('server-close',)]
            if not tw.half:
                ops += [('sdisc', '/'), ('sdisc', '/x'), ('half',)]
                for ns in NSS:
                    if tw.emitted.get(ns, 0) < 2:
                        ops.append(('emitcb', ns))
                for ns in NSS:
                    for id in sorted(tw.ids.get(ns, ()))[:2]:
                        ops.append(('sack', ns, id))
        return ops

    def _do(self, tw, what, fn):
        rs, ra = tw.both(fn)
        if _res(rs) != _res(ra):
            self._bad(tw, 'client/result', f'{what}: Client gave '
                      f'{_res(rs)!r}, AsyncClient {_res(ra)!r}')
        return self.compare(tw, what)

    def compare(self, tw, what):
        obs = []
        for w in (tw.s, tw.a):
            c = w.c
            obs.append({
                'out': w.take_outbox(), 'log': w.take_log(),
                'cbs': list(w.cbs),
                'state': (c.connected, sorted(c.namespaces.items()),
                          sorted((ns, sorted(repr(k) for k in d))
                                 for ns, d in callbacks_of(c).items() if d),
                          client_partial_packet(c) is not None, c.sid,
                          w.eio.state),
                'task_errors': sorted(
                    [e.split('(')[0] for e in w.task_errors] +
                    ([x[1].split('(')[0] for x in w.loop.collect_errors()]
                     if w.loop is not None else []))})
            del w.cbs[:]
            del w.task_errors[:]
        for k in ('out', 'log', 'cbs', 'state', 'task_errors'):
            if obs[0][k] != obs[1][k]:
                self._bad(tw, 'client/' + k, f'after {what}: Client {k} = '
                          f'{obs[0][k]!r:.400}, AsyncClient '
                          f'{obs[1][k]!r:.400}')
        return obs[0]

    def apply(self, tw, op):
        kind = op[0]
        if kind == 'connect':
            _, sc, wait = op
            tw.gen += 1
            frames = []
            for ns, a in zip(NSS, sc):
                nsp = '' if ns == '/' else ns + ','
                if a == 'a':
                    frames.append(['0%s{"sid":"S%s%d"}' % (nsp, ns[1:],
                                                           tw.gen)])
                elif a == 'r':
                    frames.append(['4%s{"message":"no"}' % nsp])
            o = self._do(tw, op, lambda w: w.connect(
                script=frames if wait else [], namespaces=list(NSS),
                auth={'t': 1}, wait=wait))
            if not wait:
                for fr in frames:
                    self._do(tw, f'{op} answer', lambda w: w.deliver(fr[0]))
            tw.up = tw.s.c.connected
            tw.ids = {}
            tw.emitted = {}
            tw.half = False
        elif kind in ('disconnect', 'loss', 'server-close'):
            fn = {'disconnect': lambda w: w.api('disconnect'),
                  'loss': lambda w: w.lose(),
                  'server-close': lambda w: w.server_close()}[kind]
            self._do(tw, op, fn)
            tw.up = False
        elif kind == 'sdisc':
            _, ns = op
            self._do(tw, op, lambda w: w.deliver_packet(1, ns))
            tw.up = tw.s.c.connected
        elif kind == 'emitcb':
            _, ns = op
            tw.emitted[ns] = tw.emitted.get(ns, 0) + 1
            o = self._do(tw, op, lambda w: w.api(
                'emit', 'q', (1, b'x'), namespace=ns,
                callback=lambda *a, w=w: w.cbs.append(a)))
            for f in o['out']:
                if f[0] == 'pkt' and f[3] is not None:
                    tw.ids.setdefault(ns, set()).add(f[3])
        elif kind == 'sack':
            _, ns, id = op
            self._do(tw, op, lambda w: w.deliver_packet(3, ns, id,
                                                        ['r', b'b']))
            tw.ids[ns].discard(id)
        elif kind == 'half':
            self._do(tw, op, lambda w: w.deliver(
                '51-["ev",{"_placeholder":true,"num":0}]'))
            tw.half = True

    def canon(self, tw):
        c = tw.s.c
        return (tw.up, tw.gen, tw.half, c.connected,
                tuple(sorted(c.namespaces)),
                tuple(sorted((ns, tuple(sorted(v)))
                             for ns, v in tw.ids.items() if v)),
                tuple(sorted(tw.emitted.items())))

    def probe(self, tw):
        if not tw.up or tw.half:
            # only API calls; server frames would be taken as attachments
            for ns in NSS:
                self._do(tw, f'emit {ns}', lambda w: w.api(
                    'emit', 'q', 1, namespace=ns))
            return
        k = 0
        for ns in NSS + ['/nope']:
            for name in ('ev', 'zz'):
                for id in (None, 0, 5):
                    ret = RETS[k % len(RETS)]
                    k += 1
                    for w in (tw.s, tw.a):
                        w.ret = ret
                    self._do(tw, f'server event {name} id={id} ret={ret!r} '
                             f'{ns}', lambda w: w.deliver_packet(
                                 2, ns, id, [name, 1, b'z']))
            self._do(tw, f'emit {ns}', lambda w: w.api(
                'emit', 'q', {'k': b'v'}, namespace=ns))
            self._do(tw, f'send {ns}', lambda w: w.api(
                'send', None, namespace=ns))
        for f in MALFORMED:
            if f[:1] in ('5', '6', '1', '0', '4'):
                continue
            self._do(tw, f'malformed {f!r}', lambda w: w.deliver(f))
        self._do(tw, 'ack id 0', lambda w: w.deliver('30[]'))
        self._do(tw, 'ack unknown', lambda w: w.deliver('3/x,99["a"]'))
        if '/' in tw.s.c.namespaces:
            self._do(tw, 'dup connect',
                     lambda w: w.deliver('0{"sid":"dup"}'))


class PubSubModel:
    """Two 2-host clusters (threaded / asyncio); observations include the
    messages published on the channel."""

    def __init__(self, seed=0):
        pass

    def initial(self):
        def make(is_async):
            from .c07 import install_handlers
            cl = Cluster(is_async, 2, setup=install_handlers,
                         namespaces=['/'])
            cl.t = [cl.hosts[0].new_transport(), cl.hosts[1].new_transport()]
            cl.seen = 0
            cl.cb = []
            return cl
        tw = Twin(make)
        tw.conn = set()
        tw.member = set()
        tw.pend = {}
        return tw

    def close(self, tw):
        tw.s.close()
        tw.a.close()

    def _bad(self, tw, key, msg):
        tw.violations.append(('C14/' + key, msg))

    def ops(self, tw):
        ops = []
        for c in (0, 1):
            if c not in tw.conn:
                ops.append(('connect', c))
            else:
                ops.append(('cdisc', c))
                for h in (0, 1):
                    ops.append(('sdisc', c, h))
                    ops.append(('enter' if c not in tw.member else 'leave',
                                c, h))
                    if c not in tw.pend:
                        ops.append(('emitcb', c, h))
                if c in tw.pend:
                    ops.append(('ack', c))
        for h in (0, 1):
            ops.append(('close', h))
            if tw.member:
                ops.append(('publish-fails', 'close', h))
                ops.append(('publish-fails', 'emit', h))
        return ops

    def _sid(self, cl, c):
        return cl.hosts[c].sid_of(cl.t[c], '/')

    def _do(self, tw, what, fn, drain=True):
        def run(cl):
            r = fn(cl)
            if drain:
                cl.drain()
            return r
        rs, ra = tw.both(run)
        if _res(rs) != _res(ra):
            self._bad(tw, 'pubsub/result', f'{what}: PubSubManager side '
                      f'gave {_res(rs)!r}, AsyncPubSubManager {_res(ra)!r}')
        return self.compare(tw, what)

    def compare(self, tw, what):
        obs = []
        for cl in (tw.s, tw.a):
            names = {}
            for h, w in enumerate(cl.hosts):
                names.update(w.namer.names)
            msgs = []
            for m in cl.hub.log[cl.seen:]:
                d = pickle.loads(m)
                msgs.append(_norm(d, names))
            cl.seen = len(cl.hub.log)
            obs.append({
                'frames': [[f for f in cl.hosts[c].drain(cl.t[c])
                            if f[0] == 'pkt'] for c in (0, 1)],
                'log': [w.take_log() for w in cl.hosts],
                'published': msgs, 'cb': list(cl.cb),
                'snap': [_norm(w.snapshot(), names) for w in cl.hosts]})
            del cl.cb[:]
        for k in ('frames', 'log', 'published', 'cb', 'snap'):
            if obs[0][k] != obs[1][k]:
                self._bad(tw, 'pubsub/' + k, f'after {what}: threaded {k} = '
                          f'{obs[0][k]!r:.400}, asyncio {obs[1][k]!r:.400}')
        return obs[0]

    def apply(self, tw, op):
        kind = op[0]
        if kind == 'connect':
            _, c = op
            self._do(tw, op, lambda cl: cl.hosts[c].recv_packet(
                cl.t[c], 0, '/'))
            tw.conn.add(c)
        elif kind == 'cdisc':
            _, c = op
            self._do(tw, op, lambda cl: cl.hosts[c].recv_packet(
                cl.t[c], 1, '/'))
            self._gone(tw, c)
        elif kind == 'sdisc':
            _, c, h = op
            self._do(tw, op, lambda cl: cl.hosts[h].api(
                'disconnect', self._sid(cl, c)))
            self._gone(tw, c)
        elif kind in ('enter', 'leave'):
            _, c, h = op
            self._do(tw, op, lambda cl: cl.hosts[h].api(
                kind + '_room', self._sid(cl, c), 'r'))
            (tw.member.add if kind == 'enter' else tw.member.discard)(c)
        elif kind == 'close':
            _, h = op
            self._do(tw, op, lambda cl: cl.hosts[h].api('close_room', 'r'))
            tw.member.clear()
        elif kind == 'publish-fails':
            # fault: the backend refuses one publish on host h while the
            # application closes the room / emits to it; both twins must
            # fail the same way and leave the same state behind, which the
            # emits that follow (same operation: no state merge in between)
            # make visible
            _, what, h = op

            def faulty(cl):
                m = cl.hosts[h].sio.manager
                real = m._publish
                state = {'n': 0}
                if cl.hosts[h].is_async:
                    async def pub(data):
                        state['n'] += 1
                        if state['n'] == 1:
                            raise OSError('scripted publish fault')
                        return await real(data)
                else:
                    def pub(data):
                        state['n'] += 1
                        if state['n'] == 1:
                            raise OSError('scripted publish fault')
                        return real(data)
                m._publish = pub
                try:
                    if what == 'close':
                        return cl.hosts[h].api('close_room', 'r')
                    return cl.hosts[h].api('emit', 'e', 2, to='r')
                finally:
                    m._publish = real
            self._do(tw, op, faulty)
            for via in (0, 1):
                self._do(tw, f'{op}: emit to the room via {via} afterwards',
                         lambda cl: cl.hosts[via].api('emit', 'e', 3,
                                                      to='r'))
            if what == 'close':
                # whatever is left of the room is the same on both sides;
                # the model forgets the membership conservatively
                self._do(tw, f'{op}: close again', lambda cl: cl.hosts[
                    h].api('close_room', 'r'))
                tw.member.clear()
        elif kind == 'emitcb':
            _, c, h = op
            o = self._do(tw, op, lambda cl: cl.hosts[h].api(
                'emit', 'q', 1, to=self._sid(cl, c),
                callback=lambda *a, cl=cl: cl.cb.append(a)))
            ids = [f[3] for f in o['frames'][c] if f[1] == 2 and
                   f[3] is not None]
            if ids:
                tw.pend[c] = ids[0]
        elif kind == 'ack':
            _, c = op
            id = tw.pend.pop(c)
            self._do(tw, op, lambda cl: cl.hosts[c].recv_packet(
                cl.t[c], 3, '/', id, ['done']))

    def _gone(self, tw, c):
        tw.conn.discard(c)
        tw.member.discard(c)
        tw.pend.pop(c, None)

    def canon(self, tw):
        return (tuple(sorted(tw.conn)), tuple(sorted(tw.member)),
                tuple(sorted(tw.pend)))

    def probe(self, tw):
        for h in (0, 1):
            for to in (None, 'r'):
                for skip in (None, 0):
                    def f(cl):
                        sk = self._sid(cl, skip) if skip is not None and \
                            skip in tw.conn else None
                        return cl.hosts[h].api('emit', 'e', (1, b'b'), to=to,
                                               skip_sid=sk)
                    self._do(tw, f'emit to={to} skip={skip} via {h}', f)
            self._do(tw, f'emit ignore_queue via {h}',
                     lambda cl: cl.hosts[h].api('emit', 'e', 1,
                                                ignore_queue=True))
        # messages only one side consumes later must look the same: bad and
        # foreign channel items through both listeners
        for item in (pickle.dumps(5), b'\x80garbage', '{"method":"bogus"}',
                     pickle.dumps({'method': 'emit', 'event': 'x',
                                   'data': None, 'namespace': '/',
                                   'host_id': 'Z'}),
                     pickle.dumps({'method': 'close_room', 'host_id': 'Z'}),
                     {'method': 'callback', 'host_id': 'H0', 'sid': 'x',
                      'id': 1, 'args': []}):
            def f(cl):
                for h, w in enumerate(cl.hosts):
                    w.sio.manager.feed.append(item)
                    w.run(w.sio.manager._thread)
                return ('ok', None)
            self._do(tw, f'channel item {item!r:.40}', f)


def _norm(d, names):
    if isinstance(d, dict):
        return {_norm(k, names): _norm(v, names)
                for k, v in sorted(d.items(), key=repr)}
    if isinstance(d, (list, tuple)):
        return [_norm(v, names) for v in d]
    if isinstance(d, str):
        return names.get(d, d)
    return d


e1.register('c14s', lambda **p: ServerModel(**p))
e1.register('c14c', lambda **p: ClientModel(**p))
e1.register('c14p', lambda **p: PubSubModel(**p))


def simple_client_parity(result):
    """Scripted sequential scenarios for SimpleClient / AsyncSimpleClient."""
    import socketio
    import socketio.simple_client as scmod
    from ..cworld import SeqEvent
    n = 0
    scripts = [
        ['connect', 'e1', 'e2', 'receive', 'receive', 'emit', 'loss',
         'receive'],
        ['connect', 'receive-timeout', 'e1', 'receive', 'disconnect',
         'receive'],
        ['connect', 'e1', 'loss', 'receive', 'receive', 'emit', 'call'],
        ['connect', 'connect'],
    ]
    for script in scripts:
        traces = []
        for is_async in (False, True):
            n += 1
            w = ClientWorld(is_async=is_async, instantiate=False,
                            reconnection=False)
            trace = []
            if is_async:
                class SC(socketio.AsyncSimpleClient):
                    client_class = w.C
            else:
                saved = scmod.Event
                scmod.Event = lambda: SeqEvent(w)

                class SC(socketio.SimpleClient):
                    client_class = w.C
            sc = SC(**w.client_kwargs)

            def hook_sync(pkt):
                from engineio import packet as ep
                if pkt.packet_type == ep.MESSAGE and pkt.data[:1] == '0':
                    sc.client._handle_eio_message('0{"sid":"S"}')

            async def hook_async(pkt):
                from engineio import packet as ep
                if pkt.packet_type == ep.MESSAGE and pkt.data[:1] == '0':
                    await sc.client._handle_eio_message('0{"sid":"S"}')
            w.send_hook = hook_async if is_async else hook_sync
            try:
                for step in script:
                    if step == 'connect':
                        r = w.run(sc.connect, 'http://h')
                    elif step in ('e1', 'e2'):
                        r = w.run(sc.client._handle_eio_message,
                                  '2["%s",1,{"k":2}]' % step)
                    elif step == 'receive':
                        r = w.run(sc.receive, timeout=1)
                    elif step == 'receive-timeout':
                        r = w.run(sc.receive, timeout=0.5)
                    elif step == 'emit':
                        r = w.run(sc.emit, 'x', {'d': 1})
                    elif step == 'call':
                        r = w.run(sc.call, 'x', 1, timeout=1)
                    elif step == 'loss':
                        r = w.lose()
                    elif step == 'disconnect':
                        r = w.run(sc.disconnect)
                    trace.append((step, _res(r), w.take_outbox(),
                                  sc.connected, list(sc.input_buffer)))
            finally:
                if not is_async:
                    scmod.Event = saved
                w.close()
            traces.append(trace)
        if traces[0] != traces[1]:
            for a, b in zip(*traces):
                if a != b:
                    result.violation(
                        'C14/simple-client', f'script {script}: SimpleClient '
                        f'{a!r}, AsyncSimpleClient {b!r}',
                        {'script': script, 'rerun': {
                            'module': 'mc.checks.c14',
                            'func': 'rerun_simple'}})
                    break
    return n


def reconnect_parity(result):
    """The reconnection machinery of Client and AsyncClient in lockstep: the
    fault sequences of C10's environment (which attempts fail / are refused,
    a second loss, shutdown during a back-off) with auth given as a value and
    as a callable; raw observations (attempt parameters, back-off waits,
    CONNECT packets, handler log, final state) must agree."""
    from . import c10
    n = 0
    cases = []
    for wd in [(), ('fail',), ('refuse', 'ok'), ('fail', 'refuse', 'ok'),
               ('fail', 'fail', 'fail')]:
        for mode in ('value', 'callable'):
            for extra in (None, 'second-loss'):
                cases.append(('transport-error', True, wd, None, extra,
                              (1, 5, 0.5, 0), 0.5, mode))
            cases.append(('transport-error', True, wd, len(wd) + 1, None,
                          (1, 5, 0.5, 0), 0.5, mode))
    for cause in c10.CAUSES:
        cases.append((cause, True, ('fail', 'ok'), None, None,
                      (1, 5, 0.5, 3), 0.5, 'value'))
    for case in cases:
        obs = []
        for is_async in (False, True):
            o = {}
            c10.run_case(is_async, *case, obs=o)
            obs.append(o)
            n += 1
        if obs[0] != obs[1]:
            diff = {k: (obs[0].get(k), obs[1].get(k))
                    for k in set(obs[0]) | set(obs[1])
                    if obs[0].get(k) != obs[1].get(k)}
            for k, (a, b) in sorted(diff.items()):
                result.violation(
                    'C14/reconnect/' + k, f'fault sequence {case}: Client '
                    f'{k} = {a!r:.300}, AsyncClient {b!r:.300}',
                    {'case': list(case), 'rerun': {
                        'module': 'mc.checks.c14',
                        'func': 'rerun_reconnect'}})
    return n


def rerun_reconnect(result):
    common.setup_imports()
    reconnect_parity(result)


def run(tier, seed, result):
    notes = []
    depth_s = 4 if tier == 'quick' else 7
    for ac in (False, True):
        for kind in ('func', 'class'):
            params = dict(always_connect=ac, kind=kind, seed=seed)
            st = e1.explore('c14s', params, result, max_depth=depth_s)
            notes.append(f'servers always_connect={ac} {kind}: {st}')
    st = e1.explore('c14c', dict(seed=seed), result, max_depth=30)
    notes.append(f'clients: {st}')
    st = e1.explore('c14p', dict(seed=seed), result, max_depth=30)
    notes.append(f'pubsub: {st}')
    n = simple_client_parity(result)
    result.add('simple_client_scenarios', n)
    n = reconnect_parity(result)
    result.add('reconnect_scenarios', n)
    notes.append(f'reconnection twins: {n} runs')
    result.assumptions += [
        'handlers run inline (async_handlers off); session ids renamed by '
        'order of generation on each side',
        'namespace helper parity is decided by C17 (both class pairs '
        'against their own targets); admin instrumentation is not in the '
        "property's class list",
        f'server twins: all histories up to depth {depth_s}; client and '
        'pub/sub twins: to closure',
    ]
    return dict(
        rule='lockstep BFS: every operation is applied to the threaded and '
             'the asyncio twin and all observations compared for equality '
             '(frames per peer in order, handler/callback log, results and '
             'exception type+message, manager snapshot, published pub/sub '
             'messages); at every state a battery of probes (events with 11 '
             'return shapes incl. falsy values, 14 malformed frames, emits, '
             'stale API calls, bad channel items) is applied to both',
        explanation=' | '.join(notes),
        exhaustive=False)


def rerun_simple(result):
    common.setup_imports()
    simple_client_parity(result)
