"""C16 User sessions are private to one client connection and namespace.
E1 over connect / save / mutate-in-session-block / disconnect x3 / loss /
reconnect, on real engine.io sessions."""
from .. import common, e1
from ..worlds import ServerWorld

NSS = ['/', '/x']


class Model:
    def __init__(self, is_async, T=2, cap=2, seed=0, pairs=None,
                 variant='default'):
        # variant 'star': always_connect=True, namespaces='*', catch-all
        # namespace handlers (no handler registered under a namespace's own
        # name), connect handlers that may save a session themselves
        self.variant = variant
        self.is_async = is_async
        self.T = T
        self.cap = cap          # writes per (transport, namespace)
        self.pairs = [tuple(p) for p in pairs] if pairs else \
            [(s, ns) for s in range(T) for ns in NSS]

    def _cap(self, s, ns):
        return self.cap if (s, ns) == (0, '/') else max(1, self.cap - 1)

    def initial(self):
        star = self.variant == 'star'
        w = ServerWorld(is_async=self.is_async,
                        namespaces='*' if star else list(NSS) + ['/ref'],
                        always_connect=star)
        w.save_in_connect = None
        if self.is_async:
            async def refuse(sid, environ):
                return False

            async def star_connect(ns, sid, environ):
                if ns == '/ref':
                    return False
                if w.save_in_connect is not None:
                    await w.sio.save_session(sid, dict(w.save_in_connect),
                                             namespace=ns)
        else:
            def refuse(sid, environ):
                return False

            def star_connect(ns, sid, environ):
                if ns == '/ref':
                    return False
                if w.save_in_connect is not None:
                    w.sio.save_session(sid, dict(w.save_in_connect),
                                       namespace=ns)
        if star:
            w.sio.on('connect', star_connect, namespace='*')
        else:
            w.sio.on('connect', refuse, namespace='/ref')
        w.violations = []
        for _ in range(self.T):
            w.new_transport()
        w.slot = list(range(self.T))
        w.conn = {}        # (slot, ns) -> sid
        w.ref = {}         # (slot, ns) -> reference session value
        w.writes = {}      # (slot, ns) -> number of writes so far
        w.gen = {}         # (slot, ns) -> connection generation (capped)
        w.counter = 0
        w.drain_all()
        return w

    def close(self, w):
        w.close()

    def ops(self, w):
        ops = []
        for s in range(self.T):
            ops.append(('loss', s))
            for ns in NSS:
                if (s, ns) not in self.pairs:
                    continue
                if (s, ns) not in w.conn:
                    ops.append(('connect', s, ns))
                    if self.variant == 'star':
                        ops.append(('connect-saving', s, ns))
                else:
                    ops.append(('cdisc', s, ns))
                    ops.append(('sdisc', s, ns))
                    # traffic that does not end the connection
                    ops.append(('dup-connect', s, ns))
                    ops.append(('connect-unserved', s, ns))
                    ops.append(('event', s, ns))
                    ops.append(('refused-elsewhere', s, ns))
                    if w.writes.get((s, ns), 0) < self._cap(s, ns):
                        ops.append(('save', s, ns))
                        ops.append(('mutate', s, ns))
                        ops.append(('mutate-raise', s, ns))
                        ops.append(('nested', s, ns))
                        ops.append(('nested2', s, ns))
                        ops.append(('save-in-block', s, ns))
                        ops.append(('save-small', s, ns))
        return ops

    def _bad(self, w, key, msg):
        w.violations.append(('C16/' + key, msg))

    def _end(self, w, s, ns):
        w.conn.pop((s, ns), None)
        w.ref.pop((s, ns), None)
        # writes are counted per (transport, namespace) lifetime: what a
        # connection wrote may (wrongly) outlive it on the same transport,
        # so only a new transport resets the budget

    def apply(self, w, op):
        kind = op[0]
        sio = w.sio
        if kind in ('connect', 'connect-saving'):
            _, s, ns = op
            saved = None
            if kind == 'connect-saving':
                # the connect handler itself stores the session
                w.counter += 1
                saved = {'owner': [s, ns, w.slot[s],
                                   w.gen.get((s, ns), 0) + 1],
                         'n': w.counter}
                w.save_in_connect = saved
            w.recv_packet(w.slot[s], 0, ns)
            w.save_in_connect = None
            sid = w.sid_of(w.slot[s], ns)
            if sid is None:
                self._bad(w, 'connect', f'{op} not accepted')
                return
            w.conn[(s, ns)] = sid
            w.ref[(s, ns)] = dict(saved) if saved else {}
            w.gen[(s, ns)] = w.gen.get((s, ns), 0) + 1
            if saved:
                w.writes[(s, ns)] = w.writes.get((s, ns), 0) + 1
        elif kind in ('dup-connect', 'connect-unserved', 'event',
                      'refused-elsewhere'):
            _, s, ns = op
            sid = w.conn[(s, ns)]
            if kind == 'dup-connect':
                w.recv_packet(w.slot[s], 0, ns)
            elif kind == 'connect-unserved':
                w.recv_packet(w.slot[s], 0, '/un')
            elif kind == 'refused-elsewhere':
                # the same transport asks for a namespace whose connect
                # handler refuses it
                w.recv_packet(w.slot[s], 0, '/ref')
            else:
                w.recv_packet(w.slot[s], 2, ns, 3, ['ev', 1])
            if w.sid_of(w.slot[s], ns) != sid:
                self._bad(w, 'harness', f'{op} ended or replaced the '
                          f'connection (not a session matter)')
                self._end(w, s, ns)
        elif kind in ('cdisc', 'sdisc'):
            _, s, ns = op
            if kind == 'cdisc':
                w.recv_packet(w.slot[s], 1, ns)
            else:
                w.api('disconnect', w.conn[(s, ns)], namespace=ns)
            self._end(w, s, ns)
        elif kind == 'loss':
            _, s = op
            w.lose(w.slot[s])
            for ns in NSS:
                self._end(w, s, ns)
                w.gen.pop((s, ns), None)
                w.writes.pop((s, ns), None)
            w.slot[s] = w.new_transport()
        elif kind == 'save':
            _, s, ns = op
            w.counter += 1
            val = {'owner': [s, ns, w.slot[s], w.gen[(s, ns)]], 'n': w.counter}
            r = w.api('save_session', w.conn[(s, ns)], val, namespace=ns)
            if r[0] == 'exc':
                self._bad(w, 'exception', f'{op} raised {r[1:]}')
            w.ref[(s, ns)] = dict(val)
            w.writes[(s, ns)] = w.writes.get((s, ns), 0) + 1
        elif kind == 'save-small':
            # replace the session by a dict that lacks every earlier key
            _, s, ns = op
            w.counter += 1
            val = {'only%d' % w.counter: [s, ns, w.slot[s], w.gen[(s, ns)]]}
            r = w.api('save_session', w.conn[(s, ns)], val, namespace=ns)
            if r[0] == 'exc':
                self._bad(w, 'exception', f'{op} raised {r[1:]}')
            w.ref[(s, ns)] = dict(val)
            w.writes[(s, ns)] = w.writes.get((s, ns), 0) + 1
        elif kind == 'save-in-block':
            # inside a session() block somebody saves another dict; the
            # block then changes its own dict and exits: what the block
            # holds is what is persisted
            _, s, ns = op
            w.counter += 1
            n = w.counter
            sid = w.conn[(s, ns)]
            other = {'other%d' % n: [s, ns, w.slot[s], w.gen[(s, ns)]]}
            if self.is_async:
                async def block():
                    async with sio.session(sid, namespace=ns) as sess:
                        await sio.save_session(sid, dict(other),
                                               namespace=ns)
                        sess['m%d' % n] = [s, ns, w.slot[s], w.gen[(s, ns)]]
                r = w.run(block)
            else:
                def block():
                    with sio.session(sid, namespace=ns) as sess:
                        sio.save_session(sid, dict(other), namespace=ns)
                        sess['m%d' % n] = [s, ns, w.slot[s], w.gen[(s, ns)]]
                r = w.run(block)
            if r[0] == 'exc':
                self._bad(w, 'exception', f'{op} raised {r[1:]}')
            w.ref[(s, ns)]['m%d' % n] = [s, ns, w.slot[s], w.gen[(s, ns)]]
            w.writes[(s, ns)] = w.writes.get((s, ns), 0) + 1
        elif kind == 'mutate-raise':
            # the block changes the session and is left through an
            # exception: what it changed is persisted all the same
            _, s, ns = op
            w.counter += 1
            n = w.counter
            sid = w.conn[(s, ns)]
            tag = [s, ns, w.slot[s], w.gen[(s, ns)]]
            if self.is_async:
                async def block():
                    async with sio.session(sid, namespace=ns) as sess:
                        sess['m%d' % n] = tag
                        raise KeyError('scripted fault inside the block')
            else:
                def block():
                    with sio.session(sid, namespace=ns) as sess:
                        sess['m%d' % n] = tag
                        raise KeyError('scripted fault inside the block')
            r = w.run(block)
            if r[:2] != ('exc', 'KeyError'):
                self._bad(w, 'exception', f'{op}: the exception raised in '
                          f'the block did not come out of it: {r!r}')
            w.ref[(s, ns)]['m%d' % n] = tag
            w.writes[(s, ns)] = w.writes.get((s, ns), 0) + 1
        elif kind in ('mutate', 'nested', 'nested2'):
            _, s, ns = op
            w.counter += 1
            n = w.counter
            sid = w.conn[(s, ns)]
            if self.is_async:
                async def block():
                    async with sio.session(sid, namespace=ns) as sess:
                        if kind != 'nested2':
                            sess['m%d' % n] = [s, ns, w.slot[s], w.gen[(s, ns)]]
                        if kind != 'mutate':
                            async with sio.session(sid, namespace=ns) as s2:
                                s2['inner%d' % n] = True
                        if kind == 'nested2':
                            sess['m%d' % n] = [s, ns, w.slot[s], w.gen[(s, ns)]]
                r = w.run(block)
            else:
                def block():
                    with sio.session(sid, namespace=ns) as sess:
                        if kind != 'nested2':
                            sess['m%d' % n] = [s, ns, w.slot[s], w.gen[(s, ns)]]
                        if kind != 'mutate':
                            with sio.session(sid, namespace=ns) as s2:
                                s2['inner%d' % n] = True
                        if kind == 'nested2':
                            sess['m%d' % n] = [s, ns, w.slot[s], w.gen[(s, ns)]]
                r = w.run(block)
            if r[0] == 'exc':
                self._bad(w, 'exception', f'{op} raised {r[1:]}')
            w.ref[(s, ns)]['m%d' % n] = [s, ns, w.slot[s], w.gen[(s, ns)]]
            if kind != 'mutate':
                w.ref[(s, ns)]['inner%d' % n] = True
            w.writes[(s, ns)] = w.writes.get((s, ns), 0) + 1
        w.drain_all()
        w.take_log()

    def future(self, w):
        return e1.drain_future(self, w, [('loss', s)
                                         for s in range(self.T)])

    def canon(self, w):
        st = []
        for s in range(self.T):
            for ns in NSS:
                if (s, ns) in w.conn:
                    ref = w.ref[(s, ns)]
                    shape = ('saved' if 'owner' in ref else 'plain',
                             sum(1 for k in ref if k.startswith('m')),
                             sum(1 for k in ref if k.startswith('inner')),
                             sum(1 for k in ref if k.startswith('only')))
                    st.append((True, w.writes.get((s, ns), 0), shape,
                               min(2, w.gen.get((s, ns), 0))))
                else:
                    st.append((False, min(2, w.gen.get((s, ns), 0))))
            # what the transport's engine.io session holds (shape only)
            sess = w.transports[w.slot[s]].session
            st.append(tuple(sorted(k for k, v in sess.items() if v)))
        return tuple(st)

    def probe(self, w):
        for (s, ns), sid in sorted(w.conn.items()):
            r = w.api('get_session', sid, namespace=ns)
            want = w.ref[(s, ns)]
            if r[0] != 'ok':
                self._bad(w, 'exception', f'get_session slot {s} {ns} '
                          f'raised {r[1:]}')
                continue
            got = r[1]
            if got != want:
                me = (s, ns, w.slot[s], w.gen[(s, ns)])
                owners = _owners(got)
                foreign = owners - {me}
                if any(o[0] != s for o in foreign):
                    key = 'leak-other-client'
                elif any(o[1] != ns for o in foreign):
                    key = 'leak-other-namespace'
                elif any(o[2] != w.slot[s] for o in foreign):
                    key = 'stale-session/across-transports'
                elif foreign:
                    # written through this very transport and namespace,
                    # but by an earlier connection (generation)
                    key = 'stale-session/same-transport-reconnect'
                elif not _subset(got, want):
                    key = 'not-replaced'
                else:
                    key = 'lost-update'
                self._bad(w, key, f'slot {s} {ns}: get_session = {got!r}, '
                          f'reference {want!r}')
            # the session() block returns the same
            if self.is_async:
                async def peek():
                    async with w.sio.session(sid, namespace=ns) as sess:
                        return dict(sess)
            else:
                def peek():
                    with w.sio.session(sid, namespace=ns) as sess:
                        return dict(sess)
            r2 = w.run(peek)
            if r2[0] != 'ok' or r2[1] != got:
                self._bad(w, 'session-block', f'slot {s} {ns}: session() '
                          f'gave {r2!r}, get_session {got!r}')


def _owners(val):
    out = set()
    if isinstance(val, dict):
        if 'owner' in val:
            out.add(tuple(val['owner']))
        for k, v in val.items():
            if k[:1] in 'mo' and isinstance(v, list) and len(v) == 4:
                out.add(tuple(v))
    return out


def _subset(got, want):
    return all(k in want and want[k] == v for k, v in got.items())


def factory(**params):
    return Model(**params)


e1.register('c16', factory)


def run(tier, seed, result):
    notes = []
    closure = True
    cap = 2
    small = [(0, '/'), (0, '/x'), (1, '/')]
    for is_async in (False, True):
        two = [(0, '/'), (0, '/x')]
        runs = [(dict(pairs=small), False),
                (dict(pairs=two, variant='star'), False)] \
            if tier == 'quick' else \
            [({}, False), (dict(pairs=small), True),
             (dict(pairs=small, variant='star'), False)]
        for extra, fut in runs:
            # fut: with the "every transport is lost" look-ahead as part of
            # the state identity (e1.drain_future)
            params = dict(is_async=is_async, cap=cap, seed=seed, **extra)
            st = e1.explore('c16', params, result, max_depth=40,
                            use_future=fut)
            closure = closure and st['closure']
            notes.append(f'async={is_async} {extra} look-ahead={fut}: {st}')
    result.assumptions += [
        f'at most {cap} session writes per (transport, namespace); connection '
        'generations per (transport, namespace) capped at 2 in the '
        'canonical state',
        'sessions live in real engine.io sockets',
    ]
    return dict(
        rule='BFS to closure over connect / save_session / session() block '
             'with mutation (plain and nested) / DISCONNECT / '
             'server.disconnect / loss+new transport for 2 transports x 2 '
             'namespaces; at every state get_session() and session() of '
             'every live connection are compared with the reference value '
             '(tagged with its owner)',
        explanation=' | '.join(notes),
        exhaustive=closure)
