"""C05 part 2 (E2): events racing disconnects on AsyncServer.

Two clients on '/'.  Each client's packets are taken up in arrival order but
by separate request tasks (long-polling POSTs), the clients interleave
freely, and disconnect handlers and event handlers are suspended at their
entry, so a client's DISCONNECT may still be in progress when its next
event, or the end of another client's connection, is processed.

Oracle: an event that arrives before its client's DISCONNECT is handled
exactly once and acknowledged with its id to that client only; an event that
arrives after the DISCONNECT invokes nothing and is not answered - no matter
what other clients do meanwhile.
"""
from .. import common, e2
from ..worlds import ServerWorld, eio_packet
from ..par import pmap

# stream of client A, and what client B does
A_STREAMS = [
    ('ev-disc-ev', ['22["ev",0]', '1', '23["ev",1]']),
    ('disc-ev-ev', ['1', '23["ev",1]', '2["ev",2]']),
    ('disc-binev', ['1', '51-3["ev",{"_placeholder":true,"num":0}]', b'x']),
]
B_ACTS = ['none', 'cdisc', 'sdisc', 'loss', 'event']


def scenario_for(astream, bact, async_handlers):
    def scenario(loop):
        loop.setup = True
        w = ServerWorld(is_async=True, loop=loop, namespaces=['/'],
                        async_handlers=async_handlers)
        sio = w.sio
        log = []

        @sio.on('disconnect')
        async def d(sid, reason):
            log.append(('disconnect', sid))
            await loop.point('dh:' + w.namer.norm(sid))

        @sio.on('ev')
        async def ev(sid, arg):
            log.append(('ev', sid, arg))
            await loop.point('eh')
            return 'r'
        ta = w.new_transport()
        tb = w.new_transport()
        w.recv_packet(ta, 0, '/')
        w.recv_packet(tb, 0, '/')
        sa, sb = w.sid_of(ta, '/'), w.sid_of(tb, '/')
        socka, sockb = w.transports[ta], w.transports[tb]
        w.drain_all()
        loop.setup = False
        arrived = []
        errors = []

        async def receive_a(f):
            try:
                await socka.receive(eio_packet.Packet(eio_packet.MESSAGE, f))
            except Exception as e:
                errors.append(('A', repr(e)))

        async def stream_a():
            # long-polling: every POST is handled by its own request task,
            # so a later packet is taken up (in arrival order) while the
            # handler of an earlier one is still suspended
            for f in astream[1]:
                await loop.point('A-arrive')
                arrived.append(f)
                loop.create_task(receive_a(f))

        async def b():
            await loop.point('B-start')
            try:
                if bact == 'cdisc':
                    await sockb.receive(
                        eio_packet.Packet(eio_packet.MESSAGE, '1'))
                elif bact == 'sdisc':
                    await sio.disconnect(sb)
                elif bact == 'loss':
                    await sockb.close(wait=False, abort=True,
                                      reason='transport close')
                    w.eio.sockets.pop(sockb.sid, None)
                elif bact == 'event':
                    await sockb.receive(
                        eio_packet.Packet(eio_packet.MESSAGE, '29["ev",9]'))
            except Exception as e:
                errors.append(('B', repr(e)))
        loop.create_task(stream_a())
        if bact != 'none':
            loop.create_task(b())

        def finish(hit):
            n = w.namer.norm
            return {'log': [n(e) for e in log], 'sa': n(sa), 'sb': n(sb),
                    'fa': [f for f in w.drain(ta) if f[0] != 'eio'],
                    'fb': [f for f in w.drain(tb) if f[0] != 'eio'],
                    'errors': errors, 'loop_errors': loop.collect_errors(),
                    'horizon': hit,
                    'parked': [lb for lb, f in loop.parked if not f.done()]}
        return finish
    return scenario


def judge(astream, bact, out):
    what = f'A sends {astream[0]}, B does {bact}'
    if out['horizon'] or out['parked']:
        return [('C05/sched-stuck', f'{what}: {out}')]
    v = []
    if out['errors'] or out['loop_errors']:
        v.append(('C05/sched-exception', f'{what}: {out["errors"]} '
                  f'{out["loop_errors"]}'))
    sa, sb = out['sa'], out['sb']
    # expected for A: events before the DISCONNECT frame
    exp_ev, exp_ack = [], []
    gone = False
    for f in astream[1]:
        if f == '1':
            gone = True
        elif not gone and isinstance(f, str) and f.startswith('2'):
            arg = int(f[-2])
            exp_ev.append(('ev', sa, arg))
            if f[1].isdigit():
                exp_ack.append(('pkt', 3, '/', int(f[1]), ['r']))
    got_ev = [e for e in out['log'] if e[0] == 'ev' and e[1] == sa]
    if sorted(got_ev, key=repr) != sorted(exp_ev, key=repr):
        v.append(('C05/sched-handler', f'{what}: handler invocations for A '
                  f'{got_ev!r}, expected {exp_ev!r} (events after A\'s '
                  f'DISCONNECT invoke nothing)'))
    if sorted(out['fa'], key=repr) != sorted(exp_ack, key=repr):
        v.append(('C05/sched-ack', f'{what}: A received {out["fa"]!r}, '
                  f'expected {exp_ack!r}'))
    nd = [e for e in out['log'] if e == ('disconnect', sa)]
    if len(nd) != 1:
        v.append(('C05/sched-disconnect-handler', f'{what}: disconnect '
                  f'handler ran {len(nd)} times for A'))
    # B: its own event handled and acknowledged to B only
    exp_b_ev = [('ev', sb, 9)] if bact == 'event' else []
    got_b = [e for e in out['log'] if e[0] == 'ev' and e[1] == sb]
    if got_b != exp_b_ev:
        v.append(('C05/sched-handler', f'{what}: handler invocations for B '
                  f'{got_b!r}, expected {exp_b_ev!r}'))
    exp_fb = {'event': [('pkt', 3, '/', 9, ['r'])],
              'sdisc': [('pkt', 1, '/', None, None)]}.get(bact, [])
    if out['fb'] != exp_fb:
        v.append(('C05/sched-ack', f'{what}: B received {out["fb"]!r}, '
                  f'expected {exp_fb!r}'))
    return v


def job(args):
    ai, bact, ah = args
    common.setup_imports()
    viols = []
    outs = set()

    def on(choices, out):
        outs.add(repr(out['log']))
        for key, msg in judge(A_STREAMS[ai], bact, out):
            if len(viols) < 3:
                viols.append((key, msg, {'replay': {
                    'module': 'mc.checks.c05_sched', 'func': 'replay',
                    'args': [ai, bact, ah, [c[1] for c in choices]]}}))
    st = e2.explore(scenario_for(A_STREAMS[ai], bact, ah), on)
    return st, viols, len(outs)


def replay(ai, bact, ah, prefix):
    common.setup_imports()
    choices, out = e2.run_one(scenario_for(A_STREAMS[ai], bact, ah),
                              list(prefix))
    return judge(A_STREAMS[ai], bact, out)


def run(tier, seed, result):
    jobs = [(ai, bact, ah) for ai in range(len(A_STREAMS))
            for bact in B_ACTS for ah in (True, False)]
    total = 0
    outcomes = 0
    for st, viols, n in pmap(job, jobs):
        total += st['executions']
        outcomes += n
        if not st['complete']:
            raise common.HarnessError('C05 schedule exploration capped')
        for key, msg, wit in viols:
            result.violation(key, msg, wit)
    result.add('schedules', total)
    result.add('sched_distinct_outcomes', outcomes)
    return f'E2: events racing disconnects on AsyncServer, {len(jobs)} ' \
           f'scenarios, {total} schedules (all interleavings of two client ' \
           f'streams at arrivals and handler suspensions)'
