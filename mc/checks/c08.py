"""C08 Client state mirrors the server; disconnect reported once per
namespace.  E1 on the client world with a client ledger."""
import itertools

import socketio

from .. import common, e1
from ..cworld import ClientWorld

NSS = ['/', '/a']
ANSWERS = ['accept', 'refuse', 'silence']


def scripts_for(nss):
    """Every assignment of answers to the requested namespaces in every
    order of arrival."""
    out = []
    for answers in itertools.product(ANSWERS, repeat=len(nss)):
        for order in itertools.permutations(range(len(nss))):
            out.append(tuple((nss[i], answers[i]) for i in order))
    return sorted(set(out))


class Model:
    def __init__(self, is_async, kind, seed=0, gens=2):
        self.is_async = is_async
        self.kind = kind          # 'func' | 'class'
        self.gens = gens

    def initial(self):
        w = ClientWorld(is_async=self.is_async, reconnection=False)
        w.violations = []
        c = w.c
        log = w.log
        is_async = self.is_async
        if self.kind == 'func':
            for ns in NSS:
                def mk(ns):
                    if is_async:
                        async def con():
                            log.append(('connect', ns))

                        async def dis(reason):
                            log.append(('disconnect', ns, reason))

                        async def err(*a):
                            log.append(('connect_error', ns, a))

                        async def ev(*a):
                            log.append(('ev', ns, a))
                    else:
                        def con():
                            log.append(('connect', ns))

                        def dis(reason):
                            log.append(('disconnect', ns, reason))

                        def err(*a):
                            log.append(('connect_error', ns, a))

                        def ev(*a):
                            log.append(('ev', ns, a))
                    c.on('connect', con, namespace=ns)
                    c.on('disconnect', dis, namespace=ns)
                    c.on('connect_error', err, namespace=ns)
                    c.on('ev', ev, namespace=ns)
                mk(ns)
        else:
            base = socketio.AsyncClientNamespace if is_async else \
                socketio.ClientNamespace
            for ns in NSS:
                def mkc(ns):
                    if is_async:
                        class NS(base):
                            async def on_connect(self):
                                log.append(('connect', ns))

                            async def on_disconnect(self, reason):
                                log.append(('disconnect', ns, reason))

                            async def on_connect_error(self, *a):
                                log.append(('connect_error', ns, a))

                            async def on_ev(self, *a):
                                log.append(('ev', ns, a))
                    else:
                        class NS(base):
                            def on_connect(self):
                                log.append(('connect', ns))

                            def on_disconnect(self, reason):
                                log.append(('disconnect', ns, reason))

                            def on_connect_error(self, *a):
                                log.append(('connect_error', ns, a))

                            def on_ev(self, *a):
                                log.append(('ev', ns, a))
                    return NS(ns)
                c.register_namespace(mkc(ns))
        w.phase = 'down'          # down | up (fully accepted) | failed
        w.accepted = {}           # ns -> sid
        w.gen = 0
        w.sidn = 0
        w.pending_cb = False
        w.half_binary = False
        w.fired = []
        w.old_ids = []            # (ns, id) outstanding when a connection died
        return w

    def close(self, w):
        w.close()

    def ops(self, w):
        ops = []
        if w.phase in ('down', 'failed'):
            if w.gen < self.gens:
                for nss in (('/',), ('/a',), ('/', '/a'), ('/a', '/')):
                    for sc in scripts_for(list(nss)):
                        for auth in (0, 1):
                            if auth == 1 and len(nss) == 2 and \
                                    sc != tuple((n, 'accept') for n in nss):
                                continue
                            ops.append(('connect', nss, auth, True, sc))
                    ops.append(('connect', nss, 0, False,
                                tuple((n, 'accept') for n in nss)))
        elif w.phase == 'up':
            for ns in sorted(w.accepted):
                if w.half_binary:
                    break     # a server sends the attachments next, nothing
                ops.append(('sdisc', ns))
                ops.append(('sconnect-dup', ns))
            ops.append(('disconnect',))
            ops.append(('loss',))
            ops.append(('server-close',))
            if not w.pending_cb and w.accepted:
                ops.append(('emitcb', sorted(w.accepted)[0]))
            if not w.half_binary and w.accepted:
                ops.append(('half-binary', sorted(w.accepted)[-1]))
        return ops

    def _bad(self, w, key, msg):
        w.violations.append(('C08/' + key, msg))

    # -- operations ----------------------------------------------------------
    def apply(self, w, op):
        kind = op[0]
        c = w.c
        if kind == 'connect':
            self._connect(w, op)
        elif kind == 'sdisc':
            _, ns = op
            w.deliver_packet(1, ns)
            log = w.take_log()
            exp = [('disconnect', ns, 'server disconnect')]
            del w.accepted[ns]
            if log != exp:
                self._bad(w, 'disconnect-handler', f'{op}: handler log '
                          f'{log!r}, expected {exp!r}')
            if not w.accepted:
                self._ended(w, op)
        elif kind == 'sconnect-dup':
            _, ns = op
            nsp = '' if ns == '/' else ns + ','
            w.deliver('0%s{"sid":"dup"}' % nsp)
            log = w.take_log()
            if log:
                self._bad(w, 'dup-connect', f'{op}: handlers ran {log!r}')
        elif kind in ('disconnect', 'loss', 'server-close'):
            reason = {'disconnect': 'client disconnect',
                      'loss': 'transport error',
                      'server-close': 'server disconnect'}[kind]
            w.take_outbox()
            if kind == 'disconnect':
                r = w.api('disconnect')
                out = [f for f in w.take_outbox() if f[0] == 'pkt']
                exp_out = sorted(('pkt', 1, ns, None, None)
                                 for ns in w.accepted)
                if sorted(out) != exp_out:
                    self._bad(w, 'disconnect-packets', f'{op}: sent {out!r}, '
                              f'expected {exp_out!r}')
            elif kind == 'loss':
                r = w.lose()
            else:
                r = w.server_close()
            if r[0] == 'exc':
                self._bad(w, 'exception', f'{op} raised {r[1:]}')
            log = w.take_log()
            exp = sorted(('disconnect', ns, reason) for ns in w.accepted)
            if sorted(log) != exp:
                self._bad(w, 'disconnect-handler', f'{op}: handler log '
                          f'{log!r}, expected once per connected namespace '
                          f'{exp!r}')
            w.accepted = {}
            self._ended(w, op)
        elif kind == 'emitcb':
            _, ns = op
            r = w.api('emit', 'q', 1, namespace=ns,
                      callback=lambda *a: w.fired.append(a))
            fr = [f for f in w.take_outbox() if f[0] == 'pkt']
            if r[0] != 'ok' or len(fr) != 1:
                self._bad(w, 'emit', f'{op}: {r!r} {fr!r}')
            else:
                w.pending_cb = (ns, fr[0][3])
        elif kind == 'half-binary':
            _, ns = op
            nsp = '' if ns == '/' else ns + ','
            w.deliver('51-%s["ev",{"_placeholder":true,"num":0}]' % nsp)
            w.half_binary = True
        w.take_outbox()
        w.take_log()

    def _ended(self, w, op):
        """The connection has ended for good: nothing may survive."""
        c = w.c
        if w.pending_cb:
            w.old_ids.append(w.pending_cb)
        w.phase = 'down'
        w.pending_cb = False
        w.half_binary = False
        res = []
        if c.connected:
            res.append('connected flag still set')
        if c.namespaces:
            res.append(f'namespaces {c.namespaces!r}')
        from ..introspect import callbacks_of, client_partial_packet
        if any(callbacks_of(c).values()):
            res.append(f'callbacks {callbacks_of(c)!r}')
        if client_partial_packet(c) is not None:
            res.append('half-received binary packet kept')
        if c.sid is not None:
            res.append(f'sid {c.sid!r}')
        if w.eio.state != 'disconnected':
            res.append(f'engine.io state {w.eio.state}')
        if res:
            self._bad(w, 'residue-after-end', f'after {op}: ' +
                      '; '.join(res))

    def _connect(self, w, op):
        _, nss, authsel, wait, script = op
        c = w.c
        nss = list(nss)
        w.gen += 1
        authval = {'user': 'u%d' % w.gen}
        auth = (lambda: authval) if authsel else authval
        frames = []
        sids = {}
        for ns, ans in script:
            nsp = '' if ns == '/' else ns + ','
            if ans == 'accept':
                w.sidn += 1
                sids[ns] = 'S%d' % w.sidn
                frames.append(['0%s{"sid":"%s"}' % (nsp, sids[ns])])
            elif ans == 'refuse':
                frames.append(['4%s{"message":"no %s"}' % (nsp, ns)])
        w.take_outbox()
        was_failed = w.phase == 'failed'
        r = w.connect(script=frames if wait else [], namespaces=nss,
                      auth=auth, wait=wait)
        out = [f for f in w.take_outbox() if f[0] == 'pkt']
        log = w.take_log()
        # one CONNECT per requested namespace, carrying the auth payload
        conn = [f for f in out if f[1] == 0]
        exp_conn = [('pkt', 0, ns, None, authval) for ns in nss]
        if conn != exp_conn:
            self._bad(w, 'connect-packets', f'{op}: sent {conn!r}, expected '
                      f'{exp_conn!r}')
        if not wait:
            if r[0] != 'ok':
                self._bad(w, 'connect-nowait', f'{op}: {r!r}')
            # the server answers afterwards
            for ns, ans in script:
                nsp = '' if ns == '/' else ns + ','
                w.deliver('0%s{"sid":"%s"}' % (nsp, sids[ns]))
            log += w.take_log()
            answers = dict(script)
        else:
            answers = dict(script)
        all_ok = all(a == 'accept' for a in answers.values())
        refused = [ns for ns, a in script if a == 'refuse']
        # with the default namespace refused the client forgets everything:
        # answers arriving after that belong to a dead attempt
        if wait and all_ok:
            if r[0] != 'ok':
                self._bad(w, 'connect-result', f'{op}: every namespace was '
                          f'accepted but connect() gave {r!r}')
                w.phase = 'failed'
                return
            exp_log = sorted(('connect', ns) for ns in nss)
            if sorted(log) != exp_log:
                self._bad(w, 'connect-handler', f'{op}: handler log {log!r},'
                          f' expected {exp_log!r}')
            w.accepted = dict(sids)
            w.phase = 'up'
            self._mirror(w, op)
        elif wait:
            if r[:2] != ('exc', 'ConnectionError'):
                self._bad(w, 'connect-result', f'{op}: not every namespace '
                          f'was accepted but connect() gave {r!r}')
            for ns in refused:
                n = sum(1 for e in log if e[0] == 'connect_error'
                        and e[1] == ns)
                if n != 1:
                    self._bad(w, 'connect-error-handler', f'{op}: refusal '
                              f'of {ns} reported {n} times: {log!r}')
            w.phase = 'failed'
            w.accepted = {}
            self._fully_disconnected(w, op)
        else:
            w.accepted = dict(sids)
            w.phase = 'up'
            exp_log = sorted(('connect', ns) for ns in nss)
            if sorted(log) != exp_log:
                self._bad(w, 'connect-handler', f'{op}: handler log {log!r},'
                          f' expected {exp_log!r}')
            self._mirror(w, op)
        # nothing of an earlier connection may fire now
        if w.phase == 'up':
            for ns, id in w.old_ids:
                if ns in w.accepted:
                    n0 = len(w.fired)
                    w.deliver_packet(3, ns, id, ['late'])
                    if len(w.fired) != n0:
                        self._bad(w, 'stale-callback', f'{op}: a callback '
                                  f'of the previous connection fired')
            w.old_ids = []

    def _fully_disconnected(self, w, op):
        c = w.c
        res = []
        if c.connected:
            res.append('connected flag set')
        if c.namespaces:
            res.append(f'namespace list {sorted(c.namespaces)!r}')
        for ns in NSS:
            if c.get_sid(ns) is not None:
                res.append(f'get_sid({ns}) = {c.get_sid(ns)!r}')
        if res:
            self._bad(w, 'failed-connect-residue', f'after failed {op}: ' +
                      '; '.join(res))
        for ns in NSS:
            for name, args in (('emit', ('q', 1)), ('send', (1,)),
                               ('call', ('q', 1))):
                w.take_outbox()
                r = w.api(name, *args, namespace=ns)
                out = [f for f in w.take_outbox() if f[0] == 'pkt']
                if r[:2] != ('exc', 'BadNamespaceError') or out:
                    self._bad(w, 'failed-connect-emit', f'after failed {op}:'
                              f' {name} on {ns} gave {r!r}, sent {out!r}')

    def _mirror(self, w, op):
        c = w.c
        if dict(c.namespaces) != w.accepted:
            self._bad(w, 'mirror', f'after {op}: namespaces '
                      f'{dict(c.namespaces)!r}, server accepted '
                      f'{w.accepted!r}')
        for ns in NSS:
            if c.get_sid(ns) != w.accepted.get(ns):
                self._bad(w, 'mirror', f'after {op}: get_sid({ns}) = '
                          f'{c.get_sid(ns)!r}, expected '
                          f'{w.accepted.get(ns)!r}')
        if c.connected != bool(w.accepted):
            self._bad(w, 'connected-flag', f'after {op}: connected = '
                      f'{c.connected}, accepted {sorted(w.accepted)}')

    def canon(self, w):
        c = w.c
        return (w.phase, tuple(sorted(w.accepted)), bool(w.pending_cb),
                w.half_binary, w.gen, c.connected,
                tuple(sorted(c.namespaces)), w.eio.state,
                __import__('mc.introspect', fromlist=['x'])
                .client_partial_packet(c) is not None,
                tuple(sorted(repr(k) for d in __import__(
                    'mc.introspect', fromlist=['x']).callbacks_of(c).values()
                             for k in d)))

    def probe(self, w):
        c = w.c
        if w.phase == 'up':
            self._mirror(w, 'probe')
        if w.phase != 'up':
            return
        if w.half_binary:
            return      # an event now would be taken for the attachment
        for ns in NSS:
            for name, args in (('emit', ('q', (1, b'x'))), ('send', ('m',)),
                               ('call', ('q', 2))):
                w.take_outbox()
                if name == 'call':
                    if ns not in w.accepted:
                        r = w.api('call', 'q', 2, namespace=ns, timeout=1)
                    else:
                        continue    # call() on a connected ns: C09
                else:
                    r = w.api(name, *args, namespace=ns)
                out = [f for f in w.take_outbox() if f[0] == 'pkt']
                if ns in w.accepted:
                    if r[0] != 'ok' or len(out) != 1 or out[0][2] != ns:
                        self._bad(w, 'emit', f'{name} on connected {ns}: '
                                  f'{r!r}, sent {out!r}')
                else:
                    if r[:2] != ('exc', 'BadNamespaceError') or out:
                        self._bad(w, 'bad-namespace', f'{name} on '
                                  f'unconnected {ns}: {r!r}, sent {out!r}')
            # server events reach the handler of the right namespace only
            if ns in w.accepted:
                w.deliver_packet(2, ns, None, ['ev', 1])
                log = w.take_log()
                if log != [('ev', ns, (1,))]:
                    self._bad(w, 'event', f'event on {ns}: log {log!r}')
        w.take_outbox()
        w.take_log()


def factory(**params):
    return Model(**params)


e1.register('c08', factory)


def run(tier, seed, result):
    notes = []
    closure = True
    gens = 2 if tier == 'quick' else 3
    for is_async in (False, True):
        for kind in ('func', 'class'):
            params = dict(is_async=is_async, kind=kind, seed=seed, gens=gens)
            st = e1.explore('c08', params, result, max_depth=30)
            closure = closure and st['closure']
            notes.append(f'async={is_async} {kind}: {st}')
    from . import c08_sched
    notes.append(c08_sched.run(tier, seed, result))
    result.assumptions += [
        'reconnection disabled (C10 owns it); engine.io client is the real '
        'class with the transport cut',
        f'at most {gens} connect() calls per history',
        'server DISCONNECT for a namespace that is not connected and '
        'CONNECT_ERROR after full acceptance are outside the domain',
    ]
    return dict(
        rule='BFS to closure over connect(namespace subsets and orders, '
             'auth value/callable, wait yes/no, every assignment of '
             '{accept, refuse, silence} to the namespaces in every arrival '
             'order) / server DISCONNECT per namespace / duplicate CONNECT / '
             'emit with outstanding callback / half-received binary packet / '
             'disconnect() / transport loss / server CLOSE / reconnect; '
             'probes: emit/send/call on every namespace, server events',
        explanation=' | '.join(notes),
        exhaustive=closure)
