"""C15 The pub/sub listener survives anything that arrives on the channel.

Fault enumeration on the channel: every message of a grammar of malformed /
mistyped / echoed / foreign messages (in pickle, JSON and dict form) is
followed - singly and in ordered pairs - by a valid sentinel emit that must
still reach a local client; handler faults and a failing listen iterator are
injected; the Redis backends' retry loops are driven through a fake module.
"""
import itertools
import json
import pickle

from .. import common
from ..cluster import Cluster
from ..par import pmap

LEVEL = 'fault_enumeration'

METHODS = ['emit', 'callback', 'disconnect', 'enter_room', 'leave_room',
           'close_room', 'bogus']
WRONG = [None, 0, '', [], {}, b'', 5.5, True]


def build(is_async, with_cb=True, coro_cb=False):
    """One host with a local client on '/' (room 'r', one outstanding
    callback) and on the sentinel namespace '/s'."""
    log = []

    def setup(w):
        sio = w.sio
        for ns in ('/', '/s'):
            def mk(ns):
                if w.is_async:
                    async def d(sid, reason):
                        log.append(('disconnect', ns, reason))
                        if w.script.get('disc_raises'):
                            raise RuntimeError('scripted handler fault')
                else:
                    def d(sid, reason):
                        log.append(('disconnect', ns, reason))
                        if w.script.get('disc_raises'):
                            raise RuntimeError('scripted handler fault')
                sio.on('disconnect', d, namespace=ns)
            mk(ns)
        w.script = {}
    cl = Cluster(is_async, 1, setup=setup, with_writer=False,
                 namespaces=['/', '/s'])
    w = cl.hosts[0]
    t = w.new_transport()
    w.recv_packet(t, 0, '/')
    w.recv_packet(t, 0, '/s')
    sid = w.sid_of(t, '/')
    sids = w.sid_of(t, '/s')
    w.api('enter_room', sid, 'r')
    fired = []

    def cb(*a):
        fired.append(a)
        if w.script.get('cb_raises'):
            raise RuntimeError('scripted callback fault')
    if coro_cb:
        # a coroutine callback that awaited something which was cancelled
        async def cb(*a):     # noqa: F811
            fired.append(a)
            if w.script.get('cb_cancelled'):
                import asyncio
                raise asyncio.CancelledError()
    # one callback outstanding, issued by this host for its own client
    # (with_cb=False: the client has never been the target of one)
    if with_cb:
        w.api('emit', 'q', 1, to=sid, callback=cb)
    cl.drain()
    frames = [f for f in w.drain(t) if f[0] == 'pkt' and f[1] == 2]
    cbid = None
    from ..introspect import callbacks_of
    for k, v in callbacks_of(w.sio.manager).get(sid, {}).items():
        if v is cb:
            cbid = k
    w.take_log()
    return cl, w, t, sid, sids, fired, log, cbid


def bad_messages(sid, cbid, tier):
    """The grammar of channel messages (as dicts / raw values)."""
    out = []
    seen = set()

    def add(m):
        k = repr(m)
        if k not in seen:
            seen.add(k)
            out.append(m)
    full = {
        'emit': {'method': 'emit', 'event': 'e', 'data': 1,
                 'namespace': '/', 'room': 'r', 'skip_sid': None,
                 'callback': None, 'host_id': 'OTHER'},
        'callback': {'method': 'callback', 'host_id': 'OTHER', 'sid': sid,
                     'namespace': '/', 'id': cbid, 'args': ['x']},
        'disconnect': {'method': 'disconnect', 'sid': 'nobody',
                       'namespace': '/', 'host_id': 'OTHER'},
        'enter_room': {'method': 'enter_room', 'sid': sid, 'room': 'r2',
                       'namespace': '/', 'host_id': 'OTHER'},
        'leave_room': {'method': 'leave_room', 'sid': sid, 'room': 'r2',
                       'namespace': '/', 'host_id': 'OTHER'},
        'close_room': {'method': 'close_room', 'room': 'r2',
                       'namespace': '/', 'host_id': 'OTHER'},
        'bogus': {'method': 'bogus', 'host_id': 'OTHER', 'x': 1},
    }
    for name, m in full.items():
        fields = [f for f in m if f != 'method']
        # every subset of the fields (missing fields)
        limit = len(fields) if tier != 'quick' else len(fields)
        for r in range(limit + 1):
            for keep in itertools.combinations(fields, r):
                add({'method': name, **{f: m[f] for f in keep}})
        # every field with every wrong type
        for f in m:
            for wv in WRONG:
                d = dict(m)
                d[f] = wv
                add(d)
        # surplus fields
        add(dict(m, surplus=1, method=name))
        # own-host echo
        add(dict(m, host_id='H0'))
    # callbacks: other host / this host with unknown id / id 0
    add({'method': 'callback', 'host_id': 'H0', 'sid': sid,
         'namespace': '/', 'id': 999, 'args': []})
    add({'method': 'callback', 'host_id': 'H0', 'sid': sid,
         'namespace': '/', 'id': 0, 'args': []})
    add({'method': 'callback', 'host_id': 'H0', 'sid': 'nobody',
         'namespace': '/', 'id': 1, 'args': []})
    add({'method': 'callback', 'host_id': 'H0', 'sid': sid,
         'namespace': '/', 'id': cbid, 'args': 5})
    # emits with callback tuples of wrong arity / type
    for cbv in ((), ('r',), ('r', '/'), ('r', '/', 1, 2), 'abc', 5,
                [sid, '/', 1]):
        add(dict(full['emit'], callback=cbv))
    # emits that ask for an acknowledgement under the id of the local
    # outstanding callback, complete and with every field missing in turn
    withcb = dict(full['emit'], callback=(sid, '/', cbid), room=sid)
    add(withcb)
    for f in withcb:
        if f not in ('method', 'callback'):
            add({k: v for k, v in withcb.items() if k != f})
    # non-dict values
    for v in (5, [1, 2], 'method', ('method',), None, True, 'emit',
              {'no-method': 1}, {}, {'method': None}, {'method': 5},
              {'method': ['emit']}):
        add(v)
    return out


def encodings(m):
    """Ways the same logical message can arrive from a backend."""
    out = [('dict', m)] if isinstance(m, dict) else []
    try:
        out.append(('pickle', pickle.dumps(m)))
    except Exception:
        pass
    try:
        out.append(('json', json.dumps(m)))
    except Exception:
        pass
    return out


RAW = [b'', b'\x80', b'\x80\x04\x95garbage', b'\xff\xfe\xfd', 'not json',
       '{"method":', '[1,2', b'cos\nsystem\n(S\'true\'\ntR.', '',
       '{"method":"emit"}', b'{"method":"close_room"}', 5, None, 5.5,
       ['method'], ('method', 'emit')]


def sentinel(n):
    return pickle.dumps({'method': 'emit', 'event': 'sentinel', 'data': n,
                         'namespace': '/s', 'room': None, 'skip_sid': None,
                         'callback': None, 'host_id': 'OTHER'})


def _subst(m, sid, cbid):
    if isinstance(m, str):
        return sid if m == '@SID@' else (cbid if m == '@CB@' else m)
    if isinstance(m, dict):
        return {k: _subst(v, sid, cbid) for k, v in m.items()}
    if isinstance(m, list):
        return [_subst(v, sid, cbid) for v in m]
    if isinstance(m, tuple):
        return tuple(_subst(v, sid, cbid) for v in m)
    return m


def _encode(enc, m):
    if enc in ('dict', 'raw'):
        return m
    if enc == 'pickle':
        return pickle.dumps(m)
    return json.dumps(m)


def _short(enc, m):
    return enc + ':' + repr(m)[:90]


def run_sequence(is_async, items, fault=None, with_cb=True):
    """items: [(encoding, message template)] where '@SID@' / '@CB@' stand
    for the local client's sid on '/' and its outstanding callback id.
    Returns list of (key, msg)."""
    v = []
    cl, w, t, sid, sids, fired, log, cbid = build(
        is_async, with_cb, coro_cb=(fault == 'cb_cancelled'))
    if cbid is None:
        cbid = 1
    mgr = w.sio.manager
    try:
        if fault == 'disc_raises':
            w.script['disc_raises'] = True
        if fault == 'cb_raises':
            w.script['cb_raises'] = True
        if fault == 'cb_cancelled':
            w.script['cb_cancelled'] = True
        if fault == 'send_raises':
            real = w.sio._send_eio_packet
            state = {'n': 0}
            if is_async:
                async def boom(eio_sid, pkt):
                    state['n'] += 1
                    if state['n'] == 1:
                        raise OSError('scripted transport fault')
                    return await real(eio_sid, pkt)
            else:
                def boom(eio_sid, pkt):
                    state['n'] += 1
                    if state['n'] == 1:
                        raise OSError('scripted transport fault')
                    return real(eio_sid, pkt)
            w.sio._send_eio_packet = boom
        snap0 = w.snapshot()
        msgs = [_subst(m, sid, cbid) for enc, m in items]
        for (enc, _), m in zip(items, msgs):
            mgr.feed.append(_encode(enc, m))
        mgr.feed.append(sentinel(7))
        # messages that cannot legitimately change membership (callback
        # messages, non-dicts, undecodable items) are also followed by a
        # foreign emit *with callback* to the very client they named
        harmless = all(not isinstance(m, dict) or
                       m.get('method') in ('callback', 'bogus', None)
                       for m in msgs)
        if any(isinstance(m, dict) and m.get('host_id') == 'H0' and
               m.get('method') != 'callback' for m in msgs):
            harmless = False      # echoes are judged by "nothing changed"
        if harmless and fault is None:
            mgr.feed.append(pickle.dumps({
                'method': 'emit', 'event': 'sentinel2', 'data': 8,
                'namespace': '/', 'room': sid, 'skip_sid': None,
                'callback': (sid, '/', 4242), 'host_id': 'OTHER'}))
        if fault and fault.startswith('listen_raises'):
            k = int(fault.split('@')[1])
            real_listen = mgr._listen
            count = {'n': 0, 'raised': False}
            if is_async:
                async def listen():
                    async for m in real_listen():
                        count['n'] += 1
                        if count['n'] == k + 1 and not count['raised']:
                            count['raised'] = True
                            mgr.feed.appendleft(m)
                            raise ConnectionError('scripted backend fault')
                        yield m
            else:
                def listen():
                    for m in real_listen():
                        count['n'] += 1
                        if count['n'] == k + 1 and not count['raised']:
                            count['raised'] = True
                            mgr.feed.appendleft(m)
                            raise ConnectionError('scripted backend fault')
                        yield m
            mgr._listen = listen
        r = w.run(mgr._thread)
        what = f'{"Async" if is_async else ""}PubSubManager ' \
               f'{[_short(e, m) for (e, _), m in zip(items, msgs)]} ' \
               f'fault={fault} outstanding-callback={with_cb}'
        what = what.replace(sid, '<sid>')
        if r[0] == 'exc':
            v.append(('C15/listener-died', f'{what}: the listener raised '
                      f'{r[1:]}'))
        frames = [f for f in w.drain(t) if f[0] == 'pkt']
        got = [f for f in frames if f[2] == '/s' and
               f[4][:1] == ['sentinel']]
        if len(got) != 1 or got[0][4] != ['sentinel', 7]:
            v.append(('C15/sentinel-lost', f'{what}: the valid message that '
                      f'followed was not processed (sentinel frames {got})'))
        if mgr.feed:
            v.append(('C15/sentinel-lost', f'{what}: {len(mgr.feed)} '
                      f'message(s) left unprocessed'))
        if harmless and fault is None:
            got2 = [f for f in frames if f[2] == '/' and
                    f[4][:1] == ['sentinel2']]
            if len(got2) != 1 or got2[0][3] is None:
                v.append(('C15/sentinel2-lost', f'{what}: a foreign emit '
                          f'with callback to the client named by the bad '
                          f'message was not delivered afterwards '
                          f'({got2!r})'))
        if len(items) == 1:
            m = msgs[0]
            if isinstance(m, dict) and m.get('host_id') == 'H0' and \
                    m.get('method') != 'callback':
                # an echo of the server's own message must change nothing
                other = [f for f in frames if f[2] != '/s']
                if other or w.snapshot() != snap0 or log:
                    v.append(('C15/echo-applied', f'{what}: an own-host '
                              f'echo had effects: frames {other}, log '
                              f'{log}'))
        # the client acknowledges every event it was sent with an id
        # (none of them is the answer to the local emit): the answers to
        # foreign emits go back to the channel, never into a local callback
        if fault is None:
            for f in frames:
                if f[1] in (2, 5) and f[3] is not None and \
                        f[4][:1] != ['q']:
                    w.recv_packet(t, 3, f[2], f[3], ['late'])
        own_cb = any(isinstance(m, dict) and m.get('method') == 'callback'
                     and m.get('host_id') == 'H0' for m in msgs)
        if fired and not own_cb:
            v.append(('C15/foreign-callback', f'{what}: a local callback '
                      f'was completed although no acknowledgement was '
                      f'addressed to this server: {fired}'))
    finally:
        cl.close()
    return v


def all_items(tier):
    items = []
    for m in bad_messages('@SID@', '@CB@', tier):
        for enc, _ in encodings(m):
            items.append((enc, m))
    for r in RAW:
        items.append(('raw', r))
    return items


def fault_cases():
    d = {'method': 'disconnect', 'sid': '@SID@', 'namespace': '/',
         'host_id': 'OTHER'}
    e = {'method': 'emit', 'event': 'e', 'data': 1, 'namespace': '/',
         'room': 'r', 'skip_sid': None, 'callback': None,
         'host_id': 'OTHER'}
    c = {'method': 'callback', 'host_id': 'H0', 'sid': '@SID@',
         'namespace': '/', 'id': '@CB@', 'args': ['x']}
    return [
        ('disc_raises', [('pickle', d)]),
        ('send_raises', [('pickle', e)]),
        ('cb_raises', [('pickle', c)]),
        ('cb_cancelled', [('pickle', c)]),
        ('listen_raises@0', [('pickle', e)]),
        ('listen_raises@1', [('pickle', e)]),
        ('listen_raises@1', [('pickle', e), ('pickle', d)]),
        ('listen_raises@2', [('pickle', e), ('json', e)]),
    ]


def job(args):
    is_async, kind, tier, lo, hi = args
    common.setup_imports()
    viols = []
    n = 0
    items = all_items(tier)
    if kind == 'single':
        cases = [([it], None) for it in items[lo:hi]]
    elif kind == 'pairs':
        k = 14 if tier == 'quick' else 40
        rep = items[::max(1, len(items) // k)]
        cases = [([a, b], None) for a, b in
                 list(itertools.product(rep, repeat=2))[lo:hi]]
    else:
        cases = [(its, fault) for fault, its in fault_cases()
                 if is_async or fault != 'cb_cancelled']
    for its, fault in cases:
        variants = [True]
        if fault is None and all(
                not isinstance(m, dict) or m.get('method') in
                ('callback', 'bogus', None) for e, m in its):
            variants.append(False)
        for with_cb in variants:
            n += 1
            for key, msg in run_sequence(is_async, its, fault, with_cb):
                if len(viols) < 30:
                    viols.append((key, msg, {'replay': {
                        'module': 'mc.checks.c15', 'func': 'replay',
                        'args': [is_async, common.jsonable(
                            [list(x) for x in its]), fault, with_cb]}}))
    return n, viols


def replay(is_async, its, fault, with_cb=True):
    common.setup_imports()
    its = [(e, m) for e, m in common.unjson(its)]
    return run_sequence(is_async, its, fault, with_cb)


def run(tier, seed, result):
    from . import c15_redis
    common.setup_imports()
    # size of the grammar (the sid placeholder is substituted per world)
    nsingle = len(all_items(tier))
    jobs = []
    for is_async in (False, True):
        for lo in range(0, nsingle, 150):
            jobs.append((is_async, 'single', tier, lo, lo + 150))
        k = 14 if tier == 'quick' else 40
        npairs = len(all_items(tier)[::max(1, nsingle // k)]) ** 2
        for lo in range(0, npairs, 120):
            jobs.append((is_async, 'pairs', tier, lo, lo + 120))
        jobs.append((is_async, 'faults', tier, 0, 0))
    total = 0
    for n, viols in pmap(job, jobs):
        total += n
        for key, msg, wit in viols:
            result.violation(key, msg, wit)
    redis_note, nredis = c15_redis.run(tier, seed, result)
    result.add('evaluations', total + nredis)
    result.add('distinct_nontrivial', total + nredis)
    result.add('channel_messages', nsingle)
    result.sample({'message': {'method': 'leave_room', 'sid': '<local sid>',
                               'namespace': []}, 'encoding': 'pickle',
                   'followed_by': 'sentinel emit on /s'})
    result.sample({'fault': 'listen iterator raises at position 1',
                   'messages': ['emit', 'disconnect', 'sentinel']})
    result.assumptions += [
        'the sentinel is a valid remote emit on a namespace that no bad '
        'message names (a field-less leave_room/close_room legitimately '
        'acts on room None of the namespace it names)',
        'redis is a fake module (from_url / pubsub / publish / listen / '
        'exceptions.RedisError); time.sleep and asyncio.sleep are seams',
    ]
    return dict(
        rule='channel messages = for each of 7 method names every subset of '
             'its fields, every field with each of 8 wrong-typed values, '
             'surplus fields, own-host echoes, callback messages for other '
             'hosts / unknown ids / id 0, malformed callback tuples, '
             'non-dict values - each as pickle, JSON and dict - plus 16 raw '
             'undecodable items; sequences bad;sentinel and all ordered '
             'pairs of representatives; faults: disconnect handler raises, '
             'transport send raises, application callback raises, listen '
             'iterator raises at positions 0-2; Redis retry words (see '
             'explanation). Every case counts as non-trivial.',
        explanation=f'complete enumeration of the stated sets; '
                    f'{redis_note}',
        exhaustive=True)
