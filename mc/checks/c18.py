"""C18 Admin instrumentation: gated by credentials, invisible to the
application.

1. Gate (E4): every auth configuration x every payload variant x modes.
2. Read-only (E4/E1): an authenticated admin sends every management request
   with every room filter; application clients must be unaffected.
3. Transparency (lockstep E1): the server twin model of C14 run on a plain
   and an instrumented server side by side.
"""
import itertools

from .. import app, common, e1
from ..par import pmap
from ..worlds import ServerWorld, TaskStop
from . import c14

ADMIN = '/admin'
CRED = {'username': 'adm', 'password': 'pw'}
CRED2 = {'username': 'ops', 'password': 'x'}


class Dummy:
    def join(self, timeout=None):
        pass


def instrumented_world(is_async, auth, mode='development', read_only=False,
                       **kw):
    """ServerWorld + instrument(); process-wide Socket patches are undone by
    w.uninstrument()."""
    from engineio.socket import Socket
    from engineio.async_socket import AsyncSocket
    cls = AsyncSocket if is_async else Socket
    saved = {k: cls.__dict__[k] for k in ('handle_post_request',
                                          '_websocket_handler', '_send_ping')}
    w = ServerWorld(is_async=is_async, **kw)
    w.stats_target = None
    if not is_async:
        orig_start = w.sio.eio.start_background_task

        def start(target, *a, **k):
            if getattr(target, '__name__', '') == '_emit_server_stats':
                w.stats_target = target     # stepped explicitly by tick()
                return Dummy()
            return orig_start(target, *a, **k)
        w.sio.eio.start_background_task = start
        w.sleeps = {'stats': 0, 'limit': 0}

        def sleep(seconds=0):
            if seconds == 2:
                w.sleeps['stats'] += 1
                if w.sleeps['stats'] > w.sleeps['limit']:
                    raise TaskStop()
        w.sio.eio.sleep = sleep
    else:
        w.loop.time_limit = 0.5
    w.inst = w.sio.instrument(auth=auth, mode=mode, read_only=read_only)

    def uninstrument():
        for k, v in saved.items():
            setattr(cls, k, v)
        for k in list(cls.__dict__):
            if k.startswith('_InstrumentedServer__') or \
                    k.startswith('_InstrumentedAsyncServer__') or \
                    k in ('__handle_post_request', '__websocket_handler',
                          '__send_ping'):
                try:
                    delattr(cls, k)
                except AttributeError:
                    pass
    w.uninstrument = uninstrument
    return w


def tick(w):
    """One interval of the periodic stats reporter."""
    if w.is_async:
        if getattr(w, 'inst', None) is None:
            return
        w.loop.time_limit = w.loop.time() + 2.05
        w.loop.run()
        w.loop.time_limit = w.loop.time() + 0.5
    else:
        if getattr(w, 'stats_target', None) is None:
            return
        w.sleeps['limit'] = w.sleeps['stats'] + 1
        try:
            w.stats_target()
        except TaskStop:
            pass
        w.run_tasks()


# -- 1. the gate ---------------------------------------------------------------

def payload_variants():
    out = [('absent', None), ('empty', {}), ('exact', dict(CRED)),
           ('permuted', {'password': 'pw', 'username': 'adm'}),
           ('second', dict(CRED2)), ('token', {'token': 't'}),
           ('wrapped', [dict(CRED)]), ('string', 'adm:pw'), ('number', 5),
           ('true', True), ('list-empty', []),
           ('superset', dict(CRED, extra=1)),
           ('superset-null', dict(CRED, token=None)),
           ('unknown-null', {'token': None})]
    for k in CRED:
        sub = {x: v for x, v in CRED.items() if x != k}
        out.append(('subset-' + k, sub))
        for name, bad in (('none', None), ('zero', 0), ('true', True),
                          ('listed', [CRED[k]]), ('ne', {'$ne': ''}),
                          ('space', CRED[k] + ' '), ('upper',
                                                     CRED[k].upper())):
            d = dict(CRED)
            d[k] = bad
            out.append((f'{k}-{name}', d))
    return out


def auth_configs(is_async):
    def pred(a):
        return isinstance(a, dict) and a.get('token') == 't'

    async def apred(a):
        return isinstance(a, dict) and a.get('token') == 't'
    cfgs = [('dict', dict(CRED), lambda p: p == CRED),
            ('list', [dict(CRED), dict(CRED2)],
             lambda p: p in [CRED, CRED2]),
            ('predicate', pred, lambda p: pred(p)),
            ('disabled', False, lambda p: True)]
    if is_async:
        cfgs.append(('async-predicate', apred, lambda p: pred(p)))
    return cfgs


def gate_job(args):
    is_async, = args
    common.setup_imports()
    viols = []
    n = 0
    for cname, auth, accept in auth_configs(is_async):
        for mode in ('development', 'production'):
            for ro in (False, True):
                for pname, payload in payload_variants():
                    n += 1
                    w = instrumented_world(is_async, auth, mode, ro)
                    try:
                        t = w.new_transport()
                        w.recv_packet(t, 0, ADMIN, None, payload)
                        frames = [f for f in w.drain(t) if f[0] == 'pkt']
                        sid = w.sid_of(t, ADMIN)
                        member = sid is not None and \
                            w.sio.manager.is_connected(sid, ADMIN)
                        # a falsy payload reaches the handler as None
                        seen = payload if payload else None
                        want = bool(accept(seen))
                        got = any(f[:3] == ('pkt', 0, ADMIN)
                                  for f in frames)
                        refused = any(f[:3] == ('pkt', 4, ADMIN)
                                      for f in frames)
                        what = f'{"Async" if is_async else ""}Server ' \
                               f'auth={cname} mode={mode} read_only={ro} ' \
                               f'payload={pname} {payload!r}'
                        if want and not (got and member):
                            viols.append((f'C18/gate/refused-valid/{cname}',
                                          f'{what}: valid credentials were '
                                          f'not accepted: {frames!r:.200}'))
                        if not want and (got or member or not refused):
                            viols.append((f'C18/gate/accepted-invalid/'
                                          f'{cname}', f'{what}: accepted='
                                          f'{got} member={member} frames '
                                          f'{frames!r:.200}'))
                    finally:
                        w.uninstrument()
                        w.close()
    return n, viols


# -- 2. read-only --------------------------------------------------------------

def readonly_job(args):
    is_async, mode, ro = args
    common.setup_imports()
    viols = []
    n = 0
    effective = 0
    requests = []
    for flt in (None, 'r', '@A'):
        requests += [('emit', ['/', flt, 'hello', 1]),
                     ('join', ['/', 'newroom', flt]),
                     ('leave', ['/', 'r', flt]),
                     ('_disconnect', ['/', False, flt])]
    for name, args_ in requests:
        n += 1
        w = instrumented_world(is_async, dict(CRED), mode, ro,
                               namespaces=['/'])
        try:
            app.install(w, 'func', ['/'], events=('ev',))
            a, b, adm = w.new_transport(), w.new_transport(), \
                w.new_transport()
            w.recv_packet(a, 0, '/')
            w.recv_packet(b, 0, '/')
            sa, sb = w.sid_of(a, '/'), w.sid_of(b, '/')
            w.api('enter_room', sa, 'r')
            w.recv_packet(adm, 0, ADMIN, None, dict(CRED))
            if w.sid_of(adm, ADMIN) is None:
                raise common.HarnessError('admin could not connect')
            w.drain_all()
            w.take_log()
            before = (sorted(map(str, w.sio.rooms(sa))),
                      sorted(map(str, w.sio.rooms(sb))))
            real = [sa if x == '@A' else x for x in args_]
            w.recv_packet(adm, 2, ADMIN, None, [name] + real)
            tick(w)
            frames = [f for t in (a, b) for f in w.drain(t)
                      if f[0] == 'pkt']
            log = [e for e in w.take_log() if e[0] != 'raised']
            after = (sorted(map(str, w.sio.rooms(sa))),
                     sorted(map(str, w.sio.rooms(sb))))
            conn = (w.sio.manager.is_connected(sa, '/'),
                    w.sio.manager.is_connected(sb, '/'))
            changed = bool(frames) or before != after or conn != (True,
                                                                  True) \
                or bool(log)
            what = f'{"Async" if is_async else ""}Server mode={mode} ' \
                   f'read_only={ro} admin request {name}{args_!r}'
            if ro and changed:
                viols.append((f'C18/read-only/{name}', f'{what}: '
                              f'application clients were affected: frames '
                              f'{frames!r:.200} rooms {before}->{after} '
                              f'connected {conn} log {log!r:.100}'))
            if changed:
                effective += 1
        finally:
            w.uninstrument()
            w.close()
    return n, effective, viols


# -- 3. transparency -----------------------------------------------------------

class AdminTwin(c14.ServerModel):
    """Plain server (tw.s) vs instrumented server (tw.a), same flavour."""

    def __init__(self, is_async, mode, admin_connected, always_connect=False,
                 kind='func', seed=0, T=2):
        super().__init__(always_connect, kind, seed, T)
        self.is_async = is_async
        self.mode = mode
        self.admin_connected = admin_connected

    def initial(self):
        def make(instrumented):
            kw = dict(namespaces=list(c14.NSS),
                      always_connect=self.always_connect,
                      async_handlers=False)
            if instrumented:
                w = instrumented_world(self.is_async, dict(CRED), self.mode,
                                       False, **kw)
            else:
                w = ServerWorld(is_async=self.is_async, **kw)
                w.uninstrument = lambda: None
            app.install(w, self.kind, list(c14.NSS), events=('ev', 'ret'))
            for _ in range(self.T):
                w.new_transport()
            w.slot = list(range(self.T))
            w.cb = []
            w.roles = {}
            w.admin_t = None
            if instrumented and self.admin_connected:
                w.admin_t = w.new_transport()
                w.recv_packet(w.admin_t, 0, ADMIN, None, dict(CRED))
                if w.sid_of(w.admin_t, ADMIN) is None:
                    raise common.HarnessError('admin could not connect')
            return w
        tw = c14.Twin.__new__(c14.Twin)
        tw.s = make(False)
        tw.a = make(True)
        tw.violations = []
        tw.conn = set()
        tw.pend = {}
        tw.ncb = 0
        tw.outstanding = {}
        tw.emitted = {}
        tw.groupcb = 0
        self.compare(tw, 'initial')
        return tw

    def close(self, tw):
        tw.a.uninstrument()
        tw.s.close()
        tw.a.close()

    def ops(self, tw):
        ops = super().ops(tw) + [('tick',), ('admin-toggle',)]
        # a refused administrator login (no / wrong credentials) right
        # before an application client connects: one operation, so that the
        # refusal and what follows cannot be separated by a state merge
        for op in list(ops):
            if op[0] == 'connect' and op[1] == 0 and op[3] == 'accept':
                for how in ('none', 'wrong'):
                    ops.append(('bad-login-then',  how) + tuple(op))
        return ops

    def _admin_on(self, tw):
        w = tw.a
        return w.admin_t is not None and \
            w.sid_of(w.admin_t, ADMIN) is not None

    def apply(self, tw, op):
        if op[0] == 'tick':
            self._do(tw, op, lambda w: (tick(w), ('ok', None))[1])
            return
        if op[0] == 'bad-login-then':
            w = tw.a
            if getattr(w, 'bad_t', None) is None:
                w.bad_t = w.new_transport()
            w.recv_packet(w.bad_t, 0, ADMIN, None,
                          None if op[1] == 'none' else {'username': 'adm',
                                                        'password': 'no'})
            if w.sid_of(w.bad_t, ADMIN) is not None:
                self._bad(tw, 'admin/login', f'{op}: an administrator '
                          f'login without valid credentials was accepted')
            w.drain(w.bad_t)
            del w.task_errors[:]
            super().apply(tw, tuple(op[2:]))
            return
        if op[0] == 'admin-toggle':
            # an administrator logs in / leaves while application clients
            # come and go (instrumented side only; the plain server has no
            # such namespace)
            w = tw.a
            if self._admin_on(tw):
                w.recv_packet(w.admin_t, 1, ADMIN)
            else:
                if w.admin_t is None:
                    w.admin_t = w.new_transport()
                w.recv_packet(w.admin_t, 0, ADMIN, None, dict(CRED))
                if w.sid_of(w.admin_t, ADMIN) is None:
                    self._bad(tw, 'admin/login', f'{op}: the administrator '
                              f'could not log in')
            self.compare(tw, op)
            return
        super().apply(tw, op)

    def canon(self, tw):
        return (super().canon(tw), self._admin_on(tw))

    def probe(self, tw):
        # one reporting interval elapses at every state (flushes whatever
        # the instrumentation has queued), then the C14 probe battery
        self._do(tw, 'tick', lambda w: (tick(w), ('ok', None))[1])
        super().probe(tw)

    def _do(self, tw, what, fn):
        rs, ra = tw.both(fn)
        rs, ra = self._roles(tw.s, rs), self._roles(tw.a, ra)
        if c14._res(rs) != c14._res(ra):
            self._bad(tw, 'admin/result', f'{what}: plain server gave '
                      f'{c14._res(rs)!r}, instrumented {c14._res(ra)!r}')
        return self.compare(tw, what)

    def _roles(self, w, x):
        n = w.namer.norm
        for s, t in enumerate(w.slot):
            w.roles[n(w.eio_sid(t))] = f't{s}'
            for ns in c14.NSS:
                sid = w.sid_of(t, ns)
                if sid is not None:
                    w.roles[n(sid)] = f'c{s}{ns}'
                    w.roles[sid] = f'c{s}{ns}'

        def ren(v):
            if isinstance(v, str):
                return w.roles.get(v, w.roles.get(n(v), v))
            if isinstance(v, list):
                return [ren(i) for i in v]
            if isinstance(v, tuple):
                return tuple(ren(i) for i in v)
            if isinstance(v, dict):
                return {ren(k): ren(i) for k, i in v.items()}
            return v
        return ren(x)

    def compare(self, tw, what):
        obs = []
        for w in (tw.s, tw.a):
            frames = []
            for s, t in enumerate(w.slot):
                fs = []
                for f in w.drain(t):
                    if f == ('eio', 'END'):
                        continue
                    if f[0] == 'pkt' and f[1] == 0 and \
                            isinstance(f[4], dict) and 'sid' in f[4]:
                        # a freshly issued sid: name it after its owner
                        w.roles[f[4]['sid']] = f'c{s}{f[2]}'
                    fs.append(f)
                frames.append(fs)
            if w.admin_t is not None:
                w.drain(w.admin_t)          # admin traffic is not compared
            snap = w.snapshot()
            m = w.sio.manager
            appsnap = {
                'rooms': {ns: sorted(
                    (str(r), sorted(b.keys()))
                    for r, b in rooms.items())
                    for ns, rooms in m.rooms.items() if ns != ADMIN},
                'callbacks': snap['callbacks'],
                'pending': {ns: v for ns, v in snap['pending'].items()
                            if ns != ADMIN},
                'binary': snap['binary']}
            log = w.take_log()
            for e in log:
                # a sid that was refused never reaches the manager: name it
                # after the transport that asked (environ marker)
                if e[0] == 'connect' and isinstance(e[4], int) and \
                        e[2] not in w.roles:
                    slot = [i for i, t in enumerate(w.slot) if t == e[4] - 1]
                    if slot:
                        w.roles[e[2]] = f'c{slot[0]}{e[1]}'
            o = {'frames': frames, 'log': log, 'snap': appsnap,
                 'cb': list(w.cb)}
            o = self._roles(w, o)
            # drop what belongs to the admin connection itself
            o['snap']['callbacks'] = {
                k: v for k, v in o['snap']['callbacks'].items()
                if str(k).startswith('c')}
            o['snap']['rooms'] = {
                ns: sorted(((r, sorted(mem)) for r, mem in rooms), key=repr)
                for ns, rooms in o['snap']['rooms'].items()}
            obs.append(o)
            del w.cb[:]
            del w.task_errors[:]
        for k in ('frames', 'log', 'snap', 'cb'):
            if obs[0][k] != obs[1][k]:
                self._bad(tw, 'admin/' + k, f'after {what} (mode '
                          f'{self.mode}, admin connected: '
                          f'{self.admin_connected}): plain server {k} = '
                          f'{obs[0][k]!r:.400}, instrumented '
                          f'{obs[1][k]!r:.400}')
        return obs[0]

    def _bad(self, tw, key, msg):
        tw.violations.append(('C18/transparency/' + key.split('/', 1)[1],
                              msg))


e1.register('c18t', lambda **p: AdminTwin(**p))


def pubsub_transparency_job(args):
    """Plain vs instrumented server on a pub/sub client manager: the
    messages published on the channel are an application-visible effect
    too (other hosts act on them)."""
    is_async, mode, admin = args
    common.setup_imports()
    import pickle
    from ..cluster import Hub, make_manager
    viols = []
    traces = []
    for instrumented in (False, True):
        hub = Hub()
        mgr = make_manager(is_async, hub, 'H0')
        kw = dict(namespaces=['/'], manager=mgr, async_handlers=False)
        if instrumented:
            w = instrumented_world(is_async, dict(CRED), mode, False, **kw)
        else:
            w = ServerWorld(is_async=is_async, **kw)
            w.uninstrument = lambda: None
        try:
            app.install(w, 'func', ['/'], events=('ev',))
            a, b = w.new_transport(), w.new_transport()
            if instrumented and admin:
                adm = w.new_transport()
                w.recv_packet(adm, 0, ADMIN, None, dict(CRED))
            trace = []
            cbs = []
            role = {}        # remembered after a client has gone

            def obs(label, r):
                names = dict(w.namer.names)
                for t, nm in ((a, 'A'), (b, 'B')):
                    sid = w.sid_of(t, '/')
                    if sid is not None:
                        role[names.get(sid, sid)] = nm
                        role[sid] = nm

                def ren(x):
                    if isinstance(x, str):
                        return role.get(x, role.get(names.get(x), x))
                    if isinstance(x, (list, tuple)):
                        return [ren(i) for i in x]
                    if isinstance(x, dict):
                        return {ren(k): ren(v) for k, v in x.items()}
                    return x
                pub = []
                for m in hub.log:
                    d = pickle.loads(m)
                    if d.get('namespace') == ADMIN:
                        continue
                    pub.append(ren({k: v for k, v in sorted(d.items())}))
                del hub.log[:]
                frames = []
                for t in (a, b):
                    fs = []
                    for f in w.drain(t):
                        if f[0] != 'pkt':
                            continue
                        if f[1] == 0:
                            f = f[:4] + ({'sid': '<sid>'},)
                        fs.append(ren(f))
                    frames.append(fs)
                trace.append((label, c14._res(ren(r)), frames, pub,
                              ren(w.take_log()), list(cbs)))
                del cbs[:]
            obs('connect A', w.recv_packet(a, 0, '/'))
            obs('connect B', w.recv_packet(b, 0, '/'))
            sa = w.sid_of(a, '/')
            for iq in (False, True):
                obs(f'emit ignore_queue={iq}', w.api(
                    'emit', 'e', 1, ignore_queue=iq))
                obs(f'emit to A ignore_queue={iq}', w.api(
                    'emit', 'e', (1, b'x'), to=sa, ignore_queue=iq))
                obs(f'emit cb ignore_queue={iq}', w.api(
                    'emit', 'q', 2, to=sa, ignore_queue=iq,
                    callback=lambda *x: cbs.append(x)))
                obs(f'send skip ignore_queue={iq}', w.api(
                    'send', 'm', skip_sid=sa, ignore_queue=iq))
            obs('enter', w.api('enter_room', sa, 'r'))
            obs('emit room', w.api('emit', 'e', 3, to='r'))
            obs('leave', w.api('leave_room', sa, 'r'))
            obs('close', w.api('close_room', 'r'))
            obs('disconnect ignore_queue', w.api('disconnect', sa,
                                                 ignore_queue=True))
            obs('disconnect B', w.api('disconnect', w.sid_of(b, '/')))
            tick(w)
            obs('tick', ('ok', None))
            traces.append(trace)
        finally:
            w.uninstrument()
            w.close()
    for x, y in zip(*traces):
        if x != y:
            viols.append(('C18/transparency/pubsub', f'{"Async" if is_async else ""}'
                          f'Server on a pub/sub manager, mode {mode}, admin '
                          f'connected {admin}: at "{x[0]}" plain server '
                          f'{x[1:]!r:.500} vs instrumented {y[1:]!r:.500}'))
            break
    return len(traces[0]), viols


def run(tier, seed, result):
    notes = []
    total = 0
    for n, viols in pmap(gate_job, [(False,), (True,)]):
        total += n
        for key, msg in viols:
            result.violation(key, msg, {'case': msg[:200], 'rerun': {
                'module': 'mc.checks.c18', 'func': 'rerun_gate'}})
    result.add('gate_cases', total)
    jobs = [(ia, mode, ro) for ia in (False, True)
            for mode in ('development', 'production')
            for ro in (True, False)]
    nro = 0
    eff = 0
    for n, effective, viols in pmap(readonly_job, jobs):
        nro += n
        eff += effective
        for key, msg in viols:
            result.violation(key, msg, {'case': msg[:200], 'rerun': {
                'module': 'mc.checks.c18', 'func': 'rerun_readonly'}})
    result.add('readonly_cases', nro)
    result.add('admin_requests_with_effect_when_writable', eff)
    if eff == 0:
        raise common.HarnessError('no admin request had any effect even in '
                                  'writable development mode: harness broken')
    npub = 0
    for n, viols in pmap(pubsub_transparency_job,
                         [(ia, mode, adm) for ia in (False, True)
                          for mode in ('development', 'production')
                          for adm in (True, False)]):
        npub += n
        for key, msg in viols:
            result.violation(key, msg, {'case': msg[:200], 'rerun': {
                'module': 'mc.checks.c18', 'func': 'rerun_pubsub'}})
    result.add('pubsub_transparency_steps', npub)
    depth = 3 if tier == 'quick' else 5
    for is_async in (False, True):
        for mode in ('development', 'production'):
            for adm in (True, False):
                params = dict(is_async=is_async, mode=mode,
                              admin_connected=adm, seed=seed)
                st = e1.explore('c18t', params, result, max_depth=depth)
                notes.append(f'async={is_async} {mode} admin={adm}: {st}')
    result.cov['evaluations'] = total + nro + result.cov.get('transitions',
                                                             0)
    result.sample({'gate': {'auth': 'dict', 'payload': {'username': 'adm'},
                            'expected': 'CONNECT_ERROR'}})
    result.sample({'transparency': ['connect 0 /', 'enter 0 /', 'leave 0 /',
                                    'tick'], 'mode': 'development',
                   'admin_connected': True})
    result.assumptions += [
        'Python == is the meaning of "equals" for credentials (all '
        'credential values are strings)',
        'instrument() patches engine.io Socket classes process-wide; every '
        'world restores them',
        'the periodic stats task is stepped explicitly ("tick"); admin '
        'traffic itself (timestamps) is not compared',
    ]
    return dict(
        rule='gate: 5 auth configurations x 2 modes x read_only x 34 '
             'payload variants; read-only: 12 admin requests (emit/join/'
             'leave/_disconnect x 3 room filters) x modes; transparency: '
             'lockstep BFS (depth %d) of the C14 server alphabet + "tick" '
             'on a plain and an instrumented server (dev/prod x admin '
             'connected or not x Server/AsyncServer) comparing application '
             'frames, handler log, callbacks, rooms' % depth,
        explanation=' | '.join(notes),
        exhaustive=False)


def rerun_gate(result):
    for ia in (False, True):
        for key, msg in gate_job((ia,))[1]:
            result.violation(key, msg)


def rerun_readonly(result):
    for ia in (False, True):
        for mode in ('development', 'production'):
            for ro in (True, False):
                for key, msg in readonly_job((ia, mode, ro))[2]:
                    result.violation(key, msg)


def rerun_pubsub(result):
    for ia in (False, True):
        for mode in ('development', 'production'):
            for adm in (True, False):
                for key, msg in pubsub_transparency_job((ia, mode, adm))[1]:
                    result.violation(key, msg)
