"""C07 delayed delivery: per-host consumption of the FIFO channel interleaves
freely with the operations.  Oracle: every emit reaches a client at most
once; only clients that were addressed at some moment between publish and
the owning host's consumption; exactly the single-server set when no
membership change touched that window; a callback fires at most once, only
for its own acknowledgement."""
from .. import common, e1
from ..cluster import Cluster
from .c07 import install_handlers, ROOM

NS = '/'


class Model:
    def __init__(self, is_async, placement, maxchan=3, seed=0):
        self.is_async = is_async
        self.placement = tuple(placement)
        self.nh = max(placement) + 1
        self.nc = len(placement)
        self.maxchan = maxchan

    def initial(self):
        class W:
            pass
        w = W()
        w.violations = []
        w.cl = Cluster(self.is_async, self.nh, setup=install_handlers,
                       namespaces=['/'])
        w.t = {}
        for c, h in enumerate(self.placement):
            w.t[c] = w.cl.hosts[h].new_transport()
        w.sid = {}              # c -> sid (current)
        w.iconn = set()         # issued view: connected clients
        w.imember = set()       # issued view: room members
        w.emits = {}            # tag -> dict
        w.ntag = 0
        w.cbs = {}              # k -> dict(host, c, fired, acked args)
        w.pendack = {}          # c -> [(event id, k)]
        w.delivered = {}        # (tag, c) -> count
        return w

    def close(self, w):
        w.cl.close()

    # -- views ---------------------------------------------------------------
    def owner(self, c):
        return self.placement[c]

    def applied(self, w, c):
        """(connected, member) according to the owner host's real state."""
        sid = w.sid.get(c)
        if sid is None:
            return False, False
        host = w.cl.hosts[self.owner(c)]
        m = host.sio.manager
        if not m.is_connected(sid, NS):
            return False, False
        return True, ROOM in host.sio.rooms(sid, NS)

    def addressed(self, to, c, conn, member):
        if not conn:
            return False
        if to is None:
            return True
        if to == ROOM:
            return member
        return to == ('sid', c)

    def _sample(self, w, membership_event=False):
        """Called after every step: extend eligibility of in-flight emits
        and mark windows touched by membership changes."""
        for tag, e in w.emits.items():
            for h in list(e['open']):
                if membership_event:
                    e['dirty'].add(h)
                for c in range(self.nc):
                    if self.owner(c) != h:
                        continue
                    ac, am = self.applied(w, c)
                    if self.addressed(e['to'], c, ac, am) or \
                            self.addressed(e['to'], c, c in w.iconn,
                                           c in w.imember):
                        e['eligible'].add(c)

    def ops(self, w):
        ops = []
        hosts = list(range(self.nh))
        room_for_publish = all(w.cl.hub.pending('H%d' % h) < self.maxchan
                               for h in hosts)
        for h in hosts:
            if w.cl.hub.pending('H%d' % h):
                ops.append(('consume', h))
        for c in range(self.nc):
            if c not in w.sid:
                ops.append(('connect', c))
                continue
            if w.pendack.get(c):
                ops.append(('ack', c))
            if not room_for_publish:
                continue
            for h in hosts:
                ops.append(('enter' if c not in w.imember else 'leave',
                            c, h))
                ops.append(('sdisc', c, h))
                if not w.pendack.get(c) and len(w.cbs) < 2:
                    ops.append(('emitcb', c, h))
        if room_for_publish:
            for h in hosts + ['W']:
                ops.append(('emit', None, h))
                ops.append(('emit', ROOM, h))
                for c in sorted(w.sid):
                    ops.append(('emit', ('sid', c), h))
            for h in hosts:
                ops.append(('close', h))
        return ops

    def _bad(self, w, key, msg):
        w.violations.append(('C07/delayed/' + key, msg))

    def apply(self, w, op):
        kind = op[0]
        cl = w.cl
        membership = False
        if kind == 'connect':
            _, c = op
            host = cl.hosts[self.owner(c)]
            host.recv_packet(w.t[c], 0, NS)
            w.sid[c] = host.sid_of(w.t[c], NS)
            w.iconn.add(c)
            membership = True
        elif kind == 'consume':
            _, h = op
            before = [self.applied(w, c) for c in range(self.nc)]
            idx = cl.hub.cursor.get('H%d' % h, 0)
            cl.consume(h)
            for tag, e in w.emits.items():
                if e.get('index') == idx:
                    e['consumed_now'] = h
            after = [self.applied(w, c) for c in range(self.nc)]
            membership = before != after
        elif kind in ('enter', 'leave'):
            _, c, h = op
            cl.hosts[h].api(kind + '_room', w.sid[c], ROOM, namespace=NS)
            (w.imember.add if kind == 'enter' else w.imember.discard)(c)
            membership = True
        elif kind == 'close':
            _, h = op
            cl.hosts[h].api('close_room', ROOM, namespace=NS)
            w.imember.clear()
            membership = True
        elif kind == 'sdisc':
            _, c, h = op
            cl.hosts[h].api('disconnect', w.sid[c], namespace=NS)
            w.iconn.discard(c)
            w.imember.discard(c)
            membership = True
        elif kind == 'emit':
            _, to, h = op
            w.ntag += 1
            tag = w.ntag
            real_to = w.sid[to[1]] if isinstance(to, tuple) else to
            index = len(cl.hub.log)
            e = {'to': to, 'via': h, 'index': index, 'open': set(),
                 'dirty': set(), 'eligible': set(),
                 'at_publish': {c for c in range(self.nc)
                                if self.addressed(to, c, c in w.iconn,
                                                  c in w.imember) or
                                self.addressed(to, c, *self.applied(w, c))},
                 'exact': {c for c in range(self.nc)
                           if self.addressed(to, c, c in w.iconn,
                                             c in w.imember) and
                           self.addressed(to, c, *self.applied(w, c))}}
            e['eligible'] |= e['at_publish']
            e['open'] = {x for x in range(self.nh) if x != h}
            w.emits[tag] = e
            if h == 'W':
                cl.writer_call('emit', 'ev', {'tag': tag}, NS, room=real_to)
            else:
                cl.hosts[h].api('emit', 'ev', {'tag': tag}, to=real_to,
                                namespace=NS)
        elif kind == 'emitcb':
            _, c, h = op
            k = len(w.cbs) + 1
            w.cbs[k] = {'host': h, 'c': c, 'fired': [], 'acked': None}
            cl.hosts[h].api('emit', 'q', {'cb': k}, to=w.sid[c],
                            namespace=NS,
                            callback=lambda *a, k=k:
                            w.cbs[k]['fired'].append(a))
        elif kind == 'ack':
            _, c = op
            id, k = w.pendack[c].pop(0)
            w.cbs[k]['acked'] = ('ack', k)
            cl.hosts[self.owner(c)].recv_packet(w.t[c], 3, NS, id,
                                                ['ack', k])
        self._collect(w, op)
        self._sample(w, membership)
        # close windows of emits consumed in this step
        for tag, e in w.emits.items():
            h = e.pop('consumed_now', None)
            if h is not None and h in e['open']:
                e['open'].discard(h)
                self._closed(w, tag, e, h)

    def _collect(self, w, op):
        """Read what reached the clients in this step."""
        for c in range(self.nc):
            host = w.cl.hosts[self.owner(c)]
            for f in host.drain(w.t[c]):
                if f[0] != 'pkt' or f[1] != 2:
                    continue
                name, payload = f[4][0], f[4][1]
                if name == 'ev':
                    tag = payload['tag']
                    n = w.delivered.get((tag, c), 0) + 1
                    w.delivered[(tag, c)] = n
                    e = w.emits[tag]
                    if n > 1:
                        self._bad(w, 'delivered-twice', f'after {op}: emit '
                                  f'#{tag} {e["to"]} via {e["via"]} reached '
                                  f'client {c} {n} times')
                    # eligibility is judged with the state right now too
                    ac, am = self.applied(w, c)
                    if c not in e['eligible'] and not self.addressed(
                            e['to'], c, ac, am):
                        self._bad(w, 'not-addressed', f'after {op}: emit '
                                  f'#{tag} to {e["to"]} via {e["via"]} '
                                  f'reached client {c}, which was never '
                                  f'addressed while it was in flight')
                elif name == 'q':
                    w.pendack.setdefault(c, []).append((f[3], payload['cb']))
                    n = w.delivered.get(('q', payload['cb'], c), 0) + 1
                    w.delivered[('q', payload['cb'], c)] = n
                    if n > 1 or c != w.cbs[payload['cb']]['c']:
                        self._bad(w, 'callback-event', f'after {op}: event '
                                  f'with callback #{payload["cb"]} reached '
                                  f'client {c} ({n} times)')
        for k, cb in w.cbs.items():
            if len(cb['fired']) > 1:
                self._bad(w, 'callback-twice', f'after {op}: callback #{k} '
                          f'fired {len(cb["fired"])} times')
            if cb['fired'] and (cb['acked'] is None or
                                cb['fired'][0] != cb['acked']):
                self._bad(w, 'callback-wrong', f'after {op}: callback #{k} '
                          f'fired with {cb["fired"]}, acknowledged '
                          f'{cb["acked"]}')
        for hw in w.cl.hosts:
            hw.take_log()

    def _closed(self, w, tag, e, h):
        """Host h has consumed emit #tag: exactness if nothing raced it."""
        if h in e['dirty']:
            return
        for c in range(self.nc):
            if self.owner(c) != h:
                continue
            got = w.delivered.get((tag, c), 0)
            want = 1 if c in e['exact'] else 0
            if c in e['at_publish'] and c not in e['exact']:
                continue      # views disagreed at publish time: raced
            if got != want:
                self._bad(w, 'inexact', f'emit #{tag} to {e["to"]} via '
                          f'{e["via"]}: no membership change raced it, '
                          f'client {c} on host {h} got it {got} times, a '
                          f'single server would deliver {want}')

    def canon(self, w):
        hub = w.cl.hub
        chan = []
        import pickle
        for h in range(self.nh):
            i = hub.cursor.get('H%d' % h, 0)
            msgs = []
            for m in hub.log[i:]:
                d = pickle.loads(m)
                msgs.append((d.get('method'), d.get('host_id'),
                             repr(d.get('room'))[:3] == "'r'"))
            chan.append(tuple(msgs))
        app = tuple(self.applied(w, c) for c in range(self.nc))
        return (tuple(sorted(w.sid)), tuple(sorted(w.iconn)),
                tuple(sorted(w.imember)), app, tuple(chan),
                tuple(sorted((c, len(v)) for c, v in w.pendack.items())),
                tuple((k, cb['host'], len(cb['fired']), cb['acked'] is None)
                      for k, cb in sorted(w.cbs.items())),
                tuple(sorted((tag, tuple(sorted(e['open'])),
                              tuple(sorted(e['dirty'])))
                             for tag, e in w.emits.items() if e['open'])),
                min(w.ntag, 2))


def factory(**params):
    return Model(**params)


e1.register('c07d', factory)


def run(tier, seed, result):
    notes = []
    depth = 5 if tier == 'quick' else 7
    for is_async in (False, True):
        for placement in ([0, 1],) if tier == 'quick' else ([0, 1], [0, 0],
                                                            [1, 0]):
            params = dict(is_async=is_async, placement=placement,
                          maxchan=2 if tier == 'quick' else 3)
            st = e1.explore('c07d', params, result, max_depth=depth,
                            prefix='delayed_')
            result.add('states', st['states'])
            result.add('transitions', st['transitions'])
            notes.append(f'delayed placement={placement} async={is_async}: '
                         f'{st}')
    return ' | '.join(notes) + f' (depth cap {depth}: all histories up to ' \
        'that depth)'
