"""C11 part 3 (E3): the threaded twin of c11_sched.

Threaded Server, one transport.  A client thread delivers the client's
packets one after the other (a conforming transport), other threads call
server.disconnect() or lose the transport; scheduling points before every
call the server makes into the client manager and the transport layer and
inside the connect / disconnect handlers.  The scenarios never let two
actions end the *same* session id at the same time (that is property C20 and
its known finding); they race a connection request, or a request on another
namespace, against one ending action.  Afterwards the transport is ended and
the server must equal a fresh one.
"""
from .. import common, threads
from ..par import pmap
from ..worlds import ServerWorld, eio_packet
from . import c11, c11_sched
from .c20 import PointProxy

# (name, initially connected to '/', client frames, actors)
SCENARIOS = [
    ('connect-vs-loss', False, ['0'], ['loss']),
    ('connect-two-ns-vs-loss', False, ['0', '0/x,'], ['loss']),
    ('sdisc-vs-reconnect', True, ['0'], ['sdisc']),
    ('sdisc-vs-other-ns', True, ['0/x,', '2/x,3["ev",1]'], ['sdisc']),
    ('loss-vs-other-ns-connect', True, ['0/x,'], ['loss']),
    ('emitcb-vs-loss', True, [], ['emitcb', 'loss']),
    ('binary-header-vs-loss', True,
     ['51-["ev",{"_placeholder":true,"num":0}]'], ['loss']),
]
OUTCOMES = ['accept', 'false']


def scenario_for(sc, always_connect, outcome):
    name, connected0, frames, actors = sc

    def scenario(sched):
        w = ServerWorld(is_async=False, namespaces=['/', '/x'],
                        always_connect=always_connect, async_handlers=False)
        sio = w.sio
        state = {'outcome': 'accept', 'connect_while_closing': False,
                 'lost': False, 'in_connect': 0}

        def ch(sid, environ):
            sched.point('ch')
            return None if state['outcome'] == 'accept' else False

        def dh(sid, reason):
            sched.point('dh')

        def ev(sid, arg):
            sched.point('eh')
            return 'r'
        for ns in ('/', '/x'):
            sio.on('connect', ch, namespace=ns)
            sio.on('disconnect', dh, namespace=ns)
            sio.on('ev', ev, namespace=ns)
        fresh = c11.generic_snapshot(w)
        t = w.new_transport()
        sock = w.transports[t]
        sid0 = None
        if connected0:
            w.recv_packet(t, 0, '/')
            sid0 = w.sid_of(t, '/')
            w.api('emit', 'q', 1, to=sid0, callback=lambda *a: None)
        w.drain_all()
        state['outcome'] = outcome
        calls = []
        real_manager, real_eio = sio.manager, sio.eio
        sio.manager = PointProxy(real_manager, sched, 'manager', calls)
        sio.eio = PointProxy(real_eio, sched, 'eio', calls)

        def client():
            for f in frames:
                sched.point('arrive')
                if sock.closed:
                    return
                if sock.closing and f.startswith('0'):
                    state['connect_while_closing'] = True
                if f.startswith('0'):
                    state['in_connect'] += 1
                try:
                    sock.receive(eio_packet.Packet(eio_packet.MESSAGE, f))
                except Exception:
                    pass      # surfaces in the request, not in the server
                finally:
                    if f.startswith('0'):
                        state['in_connect'] -= 1

        def actor(kind):
            sched.point('start:' + kind)
            try:
                if kind == 'loss':
                    state['lost'] = True
                    if state['in_connect']:
                        # the transport starts to close while a CONNECT
                        # request is being processed
                        state['connect_while_closing'] = True
                    sock.close(wait=False, abort=True,
                               reason='transport close')
                    real_eio.sockets.pop(sock.sid, None)
                elif kind == 'sdisc':
                    sio.disconnect(sid0)
                elif kind == 'emitcb':
                    sio.emit('q', 3, to=sid0, callback=lambda *a: None)
            except Exception:
                pass
        sched.spawn(client, name='client')
        for a in actors:
            sched.spawn(actor, a, name=a)

        def finish(status):
            sio.manager, sio.eio = real_manager, real_eio
            if status != 'done':
                return {'stuck': status}
            if not state['lost']:
                w.lose(t)
            snap = c11.generic_snapshot(w)
            diff = {k: snap.get(k) for k in set(snap) | set(fresh)
                    if snap.get(k) != fresh.get(k)}
            out = {'stuck': None, 'diff': diff,
                   'connect_while_closing': state['connect_while_closing'],
                   'namespaces': list(real_manager.get_namespaces())}
            w.close()
            return out
        return finish
    return scenario


def judge(sc, always_connect, outcome, out):
    what = f'threaded {sc[0]} (always_connect={always_connect}, ' \
           f'handler={outcome})'
    if out.get('stuck'):
        return [('C11/threads-stuck', f'{what}: {out}')]
    v = []
    diff = dict(out['diff'])
    if out['connect_while_closing']:
        # the cause of known finding D17, threaded twin (see c11_sched)
        ghost = {k: x for k, x in diff.items()
                 if k not in c11_sched.INDEPENDENT}
        if ghost or out['namespaces']:
            v.append(('C11/sched-not-fresh/connect-while-transport-closing',
                      f'{what}: the only client is gone but '
                      f'{dict(sorted(ghost.items()))!r}; get_namespaces() '
                      f'= {out["namespaces"]!r}'))
        diff = {k: x for k, x in diff.items() if k in c11_sched.INDEPENDENT}
        out = dict(out, namespaces=[])
    for k, val in sorted(diff.items()):
        v.append(('C11/threads-not-fresh/' + k.split('.')[1],
                  f'{what}: the only client is gone but {k} = {val!r}'))
    if out['namespaces']:
        v.append(('C11/threads-not-fresh/namespaces', f'{what}: '
                  f'get_namespaces() = {out["namespaces"]!r}'))
    return v


def job(args):
    si, ac, outcome, bound, cap = args
    common.setup_imports()
    sc = SCENARIOS[si]
    viols = []
    outs = set()

    def on(choices, out):
        outs.add(repr(out))
        for key, msg in judge(sc, ac, outcome, out):
            if len(viols) < 3:
                viols.append((key, msg, {'replay': {
                    'module': 'mc.checks.c11_threads', 'func': 'replay',
                    'args': [si, ac, outcome, [c[1] for c in choices]]}}))
    st = threads.explore(scenario_for(sc, ac, outcome), on, bound=bound,
                         max_execs=cap)
    return si, st, viols, len(outs)


def replay(si, ac, outcome, prefix):
    common.setup_imports()
    sc = SCENARIOS[si]
    choices, out = threads.run_one(scenario_for(sc, ac, outcome),
                                   list(prefix))
    return judge(sc, ac, outcome, out)


def run(tier, seed, result):
    bound, cap = (2, 1500) if tier == 'quick' else (3, 20000)
    jobs = [(si, ac, outcome, bound, cap) for si in range(len(SCENARIOS))
            for ac in (False, True) for outcome in OUTCOMES]
    total = 0
    capped = 0
    for si, st, viols, n in pmap(job, jobs):
        total += st['executions']
        if not st['complete']:
            capped += 1
        for key, msg, wit in viols:
            result.violation(key, msg, wit)
    result.add('thread_schedules', total)
    return f'E3: threaded Server, client traffic racing disconnect() / ' \
           f'transport loss, {len(jobs)} scenarios, {total} schedules with ' \
           f'<= {bound} preemptions at manager / transport calls and in ' \
           f'handlers ({capped} scenarios capped at {cap} executions)'
