"""C04 Server connection lifecycle.

Part 1 (E1): BFS over {CONNECT(ns, auth, outcome), DISCONNECT, transport
loss, server.disconnect} with a connection ledger as reference.
Part 2 (E2): every interleaving of concurrent terminating causes on the
asyncio server (see c04_sched.py).
"""
from .. import app, common, e1
from ..worlds import ServerWorld

REQ_NS = ['/', '/x', '/un']
AUTHS = [None, {}, {'k': 'v'}]
REASONS = ['transport close', 'transport error', 'ping timeout']


class Model:
    def __init__(self, is_async, always_connect, nsmode, kind, T=2, cap=1,
                 outcomes=None):
        self.is_async = is_async
        self.always_connect = always_connect
        self.nsmode = nsmode
        self.kind = kind
        self.T = T
        self.cap = cap
        self.outcomes = outcomes or (app.OUTCOMES + app.JOIN_OUTCOMES)

    def served(self, ns):
        if self.nsmode == 'star':
            return True
        return ns in ('/', '/x')

    def initial(self):
        kw = {}
        if self.nsmode == 'list':
            kw['namespaces'] = ['/', '/x']
        elif self.nsmode == 'star':
            kw['namespaces'] = '*'
        w = ServerWorld(is_async=self.is_async,
                        always_connect=self.always_connect, **kw)
        kind = self.kind
        if self.nsmode == 'list' and kind == 'func':
            # the explicit list is what makes '/x' served: handlers on '/'
            # only, plus catch-all namespace handlers for the rest
            app.install(w, 'func', ['/'])
            app.install(w, 'star', [])
            # '/x' has a handler of its own for an unrelated event, but its
            # connect/disconnect handlers are the catch-all namespace's
            w.sio.on('misc', (lambda *a: None), namespace='/x')
        elif kind == 'star':
            app.install(w, 'star', [])
        else:
            app.install(w, kind, ['/', '/x'] if self.nsmode != 'star'
                        else ['/', '/x', '/un'])
        w.violations = []
        for _ in range(self.T):
            w.new_transport()
        w.slot = list(range(self.T))
        w.conn = {}                  # (slot, ns) -> sid
        w.retired = {}               # (slot, ns) -> count
        w.old = []                   # [(sid, ns)] most recent retired sids
        w.all_sids = set()
        w.joined = set()             # live sids put into JOIN_ROOM on connect
        w.drain_all()
        w.take_log()
        return w

    def close(self, w):
        w.close()

    def ops(self, w):
        ops = []
        for s in range(self.T):
            ops.append(('loss', s, REASONS[s % len(REASONS)]))
            for ns in REQ_NS:
                if (s, ns) in w.conn:
                    ops.append(('DISCONNECT', s, ns))
                    ops.append(('sdisc', s, ns))
                    ops.append(('CONNECT', s, ns, 2, 'accept'))   # duplicate
                elif not self.served(ns):
                    ops.append(('CONNECT', s, ns, 0, 'accept'))
                    ops.append(('DISCONNECT', s, ns))
                else:
                    if not self.always_connect:
                        ops.append(('CONNECT-write-fails', s, ns))
                    for a in range(len(AUTHS)):
                        for o in self.outcomes:
                            if o.startswith('j') and a:
                                continue
                            ops.append(('CONNECT', s, ns, a, o))
        return ops

    def _bad(self, w, key, msg):
        w.violations.append(('C04/' + key, msg))

    def _retire(self, w, s, ns):
        sid = w.conn.pop((s, ns))
        w.retired[(s, ns)] = w.retired.get((s, ns), 0) + 1
        w.old.append((sid, ns))
        w.old = w.old[-4:]
        return sid

    def apply(self, w, op):
        kind = op[0]
        n = w.namer.norm
        if kind == 'CONNECT':
            _, s, ns, ai, outcome = op
            t = w.slot[s]
            auth = AUTHS[ai]
            w.script['connect'] = outcome
            dup = (s, ns) in w.conn
            r = w.recv_packet(t, 0, ns, None, auth)
            log = w.take_log()
            frames = [f for f in w.drain(t) if f[0] != 'eio']
            others = [f for i in range(self.T) if i != s
                      for f in w.drain(w.slot[i]) if f[0] != 'eio']
            if others:
                self._bad(w, 'cross-talk', f'{op}: other transport got '
                          f'{others!r}')
            if r and r[0][0] == 'exc':
                self._bad(w, 'exception', f'{op} raised {r[0][1:]}')
            if dup or not self.served(ns):
                if log:
                    self._bad(w, 'handler-on-refused-request',
                              f'{op}: handlers ran {log!r}')
                if len(frames) != 1 or frames[0][:3] != ('pkt', 4, ns):
                    self._bad(w, 'refusal-answer',
                              f'{op}: expected one CONNECT_ERROR, got '
                              f'{frames!r}')
                if dup and w.sid_of(t, ns) != w.conn[(s, ns)]:
                    self._bad(w, 'dup-broke-connection',
                              f'{op}: existing connection changed')
                return
            # served, not connected: the handler must have run exactly once
            want_auth = auth if auth else None
            clog = [e for e in log if e[0] == 'connect']
            if len(clog) != 1 or len(log) != 1:
                self._bad(w, 'connect-handler-count',
                          f'{op}: handler log {log!r}')
                sid_name = None
            else:
                _, lns, sid_name, lauth, lenv = clog[0]
                if lns != ns or lauth != want_auth or lenv != t + 1:
                    self._bad(w, 'connect-handler-args',
                              f'{op}: handler saw ns={lns} auth={lauth!r} '
                              f'environ#{lenv}, expected {ns} '
                              f'{want_auth!r} #{t + 1}')
            real_sid = w.sid_of(t, ns)
            if outcome in ('accept', 'jaccept'):
                if outcome == 'jaccept' and real_sid is not None:
                    w.joined.add(real_sid)
                exp = [('pkt', 0, ns, None, {'sid': sid_name})]
                if frames != exp or sid_name is None:
                    self._bad(w, 'accept-answer',
                              f'{op}: frames {frames!r}, expected {exp!r}')
                if real_sid is None or n(real_sid) != sid_name:
                    self._bad(w, 'accept-state', f'{op}: manager has sid '
                              f'{n(real_sid)!r}, handler saw {sid_name!r}')
                    return
                if real_sid in w.all_sids or \
                        real_sid in [x.sid for x in w.transports]:
                    self._bad(w, 'sid-not-fresh',
                              f'{op}: sid {sid_name} was used before')
                w.all_sids.add(real_sid)
                w.conn[(s, ns)] = real_sid
                if not w.sio.manager.is_connected(real_sid, ns):
                    self._bad(w, 'accept-state',
                              f'{op}: accepted sid is not connected')
            else:
                payload = app.refusal_payload(outcome)
                if self.always_connect:
                    exp = [('pkt', 0, ns, None, {'sid': sid_name}),
                           ('pkt', 1, ns, None, payload)]
                else:
                    exp = [('pkt', 4, ns, None, payload)]
                if frames != exp:
                    self._bad(w, 'refusal-answer',
                              f'{op}: frames {frames!r}, expected {exp!r}')
                if real_sid is not None:
                    self._bad(w, 'refused-still-connected',
                              f'{op}: refused sid still known to manager')
                # the refused sid must retain no membership anywhere
                snap = w.snapshot()
                if sid_name is not None and sid_name in repr(snap):
                    self._bad(w, 'refused-residue',
                              f'{op}: refused sid {sid_name} still in '
                              f'{snap!r}')
                for key, rs in w.namer.names.items():
                    if rs == sid_name:
                        w.all_sids.add(key)
                        w.old.append((key, ns))
                        w.old = w.old[-4:]
        elif kind == 'CONNECT-write-fails':
            # fault: the handler accepts, the write of the CONNECT answer
            # raises.  The application has seen the connection, so it is an
            # accepted connection: it stays known to the server and its
            # disconnect handler will run when it ends
            _, s, ns = op
            t = w.slot[s]
            w.script['connect'] = 'accept'
            real = w.sio.eio.send
            state = {'n': 0}
            if w.is_async:
                async def send(*a, **k):
                    state['n'] += 1
                    if state['n'] == 1:
                        raise OSError('scripted transport write fault')
                    return await real(*a, **k)
            else:
                def send(*a, **k):
                    state['n'] += 1
                    if state['n'] == 1:
                        raise OSError('scripted transport write fault')
                    return real(*a, **k)
            w.sio.eio.send = send
            try:
                w.recv_packet(t, 0, ns)
            finally:
                w.sio.eio.send = real
            del w.task_errors[:]
            if w.is_async:
                w.loop.collect_errors()
            log = w.take_log()
            w.drain_all()
            real_sid = w.sid_of(t, ns)
            if len(log) != 1 or log[0][0] != 'connect' or state['n'] != 1:
                self._bad(w, 'connect-handler-count', f'{op}: handler log '
                          f'{log!r}, {state["n"]} transport writes')
            elif real_sid is None or n(real_sid) != log[0][2] or \
                    not w.sio.manager.is_connected(real_sid, ns):
                self._bad(w, 'accept-state', f'{op}: the handler accepted '
                          f'{log[0][2]} but the server now knows '
                          f'{n(real_sid)!r}')
            else:
                w.all_sids.add(real_sid)
                w.conn[(s, ns)] = real_sid
        elif kind == 'DISCONNECT':
            _, s, ns = op
            t = w.slot[s]
            r = w.recv_packet(t, 1, ns)
            log = w.take_log()
            if r[0][0] == 'exc':
                self._bad(w, 'exception', f'{op} raised {r[0][1:]}')
            if (s, ns) in w.conn:
                sid = self._retire(w, s, ns)
                exp = [('disconnect', ns, n(sid), 'client disconnect')]
            else:
                exp = []
            if log != exp:
                self._bad(w, 'disconnect-handler',
                          f'{op}: handler log {log!r}, expected {exp!r}')
            fr = [f for x in w.drain_all() for f in x if f[0] != 'eio']
            if fr:
                self._bad(w, 'unexpected-frames', f'{op}: {fr!r}')
        elif kind == 'sdisc':
            _, s, ns = op
            t = w.slot[s]
            sid = self._retire(w, s, ns)
            r = w.api('disconnect', sid, namespace=ns)
            log = w.take_log()
            if r[0] == 'exc':
                self._bad(w, 'exception', f'{op} raised {r[1:]}')
            exp = [('disconnect', ns, n(sid), 'server disconnect')]
            if log != exp:
                self._bad(w, 'disconnect-handler',
                          f'{op}: handler log {log!r}, expected {exp!r}')
            frames = [f for f in w.drain(t) if f[0] != 'eio']
            if frames != [('pkt', 1, ns, None, None)]:
                self._bad(w, 'sdisc-answer', f'{op}: frames {frames!r}')
            fr = [f for x in w.drain_all() for f in x if f[0] != 'eio']
            if fr:
                self._bad(w, 'cross-talk', f'{op}: {fr!r}')
        elif kind == 'loss':
            _, s, reason = op
            t = w.slot[s]
            exp = []
            for ns in REQ_NS:
                if (s, ns) in w.conn:
                    exp.append(('disconnect', ns, n(w.conn[(s, ns)]), reason))
                    self._retire(w, s, ns)
            r = w.lose(t, reason)
            log = w.take_log()
            if r[0] == 'exc':
                self._bad(w, 'exception', f'{op} raised {r[1:]}')
            if sorted(log) != sorted(exp):
                self._bad(w, 'disconnect-handler',
                          f'{op}: handler log {log!r}, expected {exp!r}')
            fr = [f for x in w.drain_all() for f in x if f[0] != 'eio']
            if fr:
                self._bad(w, 'unexpected-frames', f'{op}: {fr!r}')
            w.slot[s] = w.new_transport()
            w.take_log()

    def future(self, w):
        return e1.drain_future(self, w, [
            ('loss', s, REASONS[s % len(REASONS)]) for s in range(self.T)])

    def canon(self, w):
        st = []
        for s in range(self.T):
            for ns in REQ_NS:
                st.append(((s, ns) in w.conn,
                           min(self.cap, w.retired.get((s, ns), 0)),
                           w.conn.get((s, ns)) in w.joined))
        snap = w.snapshot()
        shape = (len(snap['rooms']),
                 sum(len(v) for v in snap['rooms'].values()),
                 len(snap['pending']), len(snap['environ']))
        return (tuple(st), shape)

    def probe(self, w):
        n = w.namer.norm
        m = w.sio.manager
        # the ledger and the manager agree
        for s in range(self.T):
            for ns in REQ_NS:
                real = w.sid_of(w.slot[s], ns)
                want = w.conn.get((s, ns))
                if real != want:
                    self._bad(w, 'ledger', f'slot {s} ns {ns}: manager '
                              f'{n(real)!r}, ledger {n(want)!r}')
                if want is not None:
                    rooms = w.api('rooms', want, namespace=ns)
                    if rooms[0] == 'ok' and isinstance(rooms[1], list):
                        rooms = ('ok', sorted(rooms[1], key=str))
                    exp_rooms = sorted([want] + ([app.JOIN_ROOM] if want in
                                                 w.joined else []), key=str)
                    if rooms != ('ok', exp_rooms):
                        self._bad(w, 'rooms', f'rooms of live {n(want)} = '
                                  f'{n(rooms)!r}')
        # retired sids are gone for good
        for sid, ns in w.old:
            if m.is_connected(sid, ns):
                self._bad(w, 'retired-connected', f'{n(sid)} still connected')
            if w.api('rooms', sid, namespace=ns) != ('ok', []):
                self._bad(w, 'retired-rooms', f'{n(sid)} still in rooms')
            w.api('emit', 'p', 1, to=sid, namespace=ns)
            fr = [f for x in w.drain_all() for f in x if f[0] != 'eio']
            if fr:
                self._bad(w, 'retired-delivery',
                          f'emit to retired {n(sid)} delivered {fr!r}')
        # a refusal is answered with *its own* message and data, whatever
        # was refused before (on this or another transport)
        free = [(s, ns) for s in range(self.T) for ns in REQ_NS
                if self.served(ns) and (s, ns) not in w.conn][:1]
        for s, ns in free:
            for outcome in ('false', 'cre1'):
                w.script['connect'] = outcome
                w.recv_packet(w.slot[s], 0, ns)
                log = w.take_log()
                frames = [f for f in w.drain(w.slot[s]) if f[0] != 'eio']
                sid_name = log[0][2] if log and log[0][0] == 'connect' \
                    else None
                payload = app.refusal_payload(outcome)
                if self.always_connect:
                    exp = [('pkt', 0, ns, None, {'sid': sid_name}),
                           ('pkt', 1, ns, None, payload)]
                else:
                    exp = [('pkt', 4, ns, None, payload)]
                if frames != exp:
                    self._bad(w, 'refusal-answer', f'refusal probe '
                              f'{outcome} on slot {s} {ns}: frames '
                              f'{frames!r}, expected {exp!r}')
                for key, rs in list(w.namer.names.items()):
                    if rs == sid_name:
                        w.all_sids.add(key)
            w.script['connect'] = 'accept'
        # the room joined by connect handlers holds exactly the live joiners
        for ns in REQ_NS:
            w.api('emit', 'p', 2, to=app.JOIN_ROOM, namespace=ns)
            for s in range(self.T):
                fr = [f for f in w.drain(w.slot[s]) if f[0] != 'eio']
                exp = [('pkt', 2, ns, None, ['p', 2])] \
                    if w.conn.get((s, ns)) in w.joined else []
                if fr != exp:
                    self._bad(w, 'room-delivery', f'emit to the room joined '
                              f'in connect handlers on {ns}: slot {s} got '
                              f'{fr!r}, expected {exp!r}')
        # broadcast reaches exactly the live connections of the namespace
        for ns in REQ_NS:
            w.api('emit', 'p', 1, namespace=ns)
            for s in range(self.T):
                fr = [f for f in w.drain(w.slot[s]) if f[0] != 'eio']
                exp = [('pkt', 2, ns, None, ['p', 1])] \
                    if (s, ns) in w.conn else []
                if fr != exp:
                    self._bad(w, 'delivery', f'broadcast on {ns}: slot {s} '
                              f'got {fr!r}, expected {exp!r}')
        w.take_log()


def factory(**params):
    return Model(**params)


e1.register('c04', factory)


def configs(tier):
    out = []
    for is_async in (False, True):
        for ac in (False, True):
            for nsmode, kind in (('default', 'func'), ('default', 'class'),
                                 ('list', 'func'), ('star', 'star'),
                                 ('star', 'class')):
                out.append(dict(is_async=is_async, always_connect=ac,
                                nsmode=nsmode, kind=kind))
    return out


def run(tier, seed, result):
    from . import c04_sched
    notes = []
    closure = True
    cap = 0 if tier == 'quick' else 1
    runs = [dict(cfg, cap=cap) for cfg in configs(tier)]
    if tier != 'quick':
        # the deeper path monitor (cap 1) runs without the state-doubling
        # "accepted after joining a room" outcome; that outcome is covered
        # with cap 0 in a second pass
        noj = [o for o in app.OUTCOMES + app.JOIN_OUTCOMES if o != 'jaccept']
        runs = [dict(r, outcomes=noj) for r in runs] + \
            [dict(cfg, cap=0) for cfg in configs(tier)]
    for i, params in enumerate(runs):
        cfg = {k: v for k, v in params.items() if k != 'outcomes'}
        # thorough, second pass: with the "every transport is lost"
        # look-ahead as part of the state identity (e1.drain_future)
        fut = tier != 'quick' and params['cap'] == 0
        st = e1.explore('c04', params, result, max_depth=40,
                        use_future=fut)
        closure = closure and st['closure']
        notes.append('%s: states=%d transitions=%d depth=%d closure=%s' % (
            ','.join(f'{k}={v}' for k, v in cfg.items()), st['states'],
            st['transitions'], st['depth'], st['closure']))
    sched = c04_sched.run(tier, seed, result)
    notes.append(sched)
    result.assumptions += [
        'engine.io sockets are real, network cut; a lost transport is '
        'replaced by a fresh one in the same slot',
        'path monitors (retired sid count per slot/namespace) capped at '
        f'{cap} in the canonical state',
        'events literally named connect/disconnect and connect handlers '
        'raising other exceptions are outside the domain',
    ]
    return dict(
        rule='E1: BFS to closure over CONNECT(ns in served/unserved/'
             'duplicate, 3 auth payloads, 6 handler outcomes) / DISCONNECT / '
             'loss / server.disconnect for 2 transports x 3 namespaces in 20 '
             'configurations; E2: every interleaving of concurrent '
             'terminating causes on AsyncServer at handler entry/exit and '
             'after each send. A state is distinct by its canonical ledger.',
        explanation=' | '.join(notes),
        exhaustive=closure)
