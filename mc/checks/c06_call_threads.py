"""C06 call() on the threaded Server under E3: every schedule of the caller
thread against {ACK, timeout, client disconnect, transport loss}."""
from .. import common, threads
from ..worlds import ServerWorld, eio_packet
from ..par import pmap
from .c06_call import ACKS, ENVS, expected, _teq


def scenario_for(env, ack_args):
    def scenario(sched):
        w = ServerWorld(is_async=False, namespaces=['/'])
        sio = w.sio
        cbs = []

        def create_event(*a, **k):
            cbs.append(sched.event('cb'))
            return cbs[-1]
        w.eio.create_event = create_event

        def tf():
            return sum(e.fired for e in cbs)
        w.eio.start_background_task = \
            lambda target, *a, **k: sched.spawn(target, *a, **k)
        t = w.new_transport()
        w.recv_packet(t, 0, '/')
        sock = w.transports[t]
        sid = w.sid_of(t, '/')
        w.drain_all()
        emitted = sched.event('emitted')
        real_send = sock.send

        def send(pkt):
            real_send(pkt)
            if pkt.packet_type == eio_packet.MESSAGE and \
                    isinstance(pkt.data, str) and pkt.data[:1] == '2':
                emitted.set()
        sock.send = send
        res = {}
        marks = []

        def caller():
            try:
                res['value'] = sio.call('q', {'x': 1}, to=sid, timeout=5)
            except Exception as e:
                res['exc'] = type(e).__name__

        def do(name):
            if name in ('ack', 'ack2'):
                if not emitted.wait(timeout=1):
                    return       # nothing was ever sent to this client
                frames = [f for f in w.drain(t) if f[0] == 'pkt']
                ids = [f[3] for f in frames if f[1] == 2]
                id = ids[0] if ids else res.get('seen_id')
                if id is None:
                    marks.append((name + '-nothing-to-ack',))
                    return
                res['seen_id'] = id
                marks.append((name, sio.manager.is_connected(sid, '/'),
                              tf(),
                              'value' in res or 'exc' in res))
                for f in w.encode(3, '/', id, ack_args):
                    sock.receive(eio_packet.Packet(eio_packet.MESSAGE, f))
                marks.append((name + '-delivered', tf()))
            elif name == 'cdisc':
                sched.point('cdisc')
                sock.receive(eio_packet.Packet(eio_packet.MESSAGE, '1'))
            elif name == 'loss':
                sched.point('loss')
                sock.close(wait=False, abort=True, reason='transport close')
        sched.spawn(caller, name='caller')
        for name in env:
            sched.spawn(do, name, name=name)

        def finish(status):
            return {'res': {k: v for k, v in res.items() if k != 'seen_id'},
                    'marks': marks, 'status': status,
                    'excs': [repr(t.exc) for t in sched.threads if t.exc]}
        return finish
    return scenario


def judge(env, ack_args, out):
    v = []
    if out['status'] != 'done':
        # an ack thread waiting for an emit that was never acknowledged is
        # impossible here: the caller always emits
        return [('C06/call-stuck', f'threaded call() scenario ended '
                 f'{out["status"]}: {out}')]
    if out['excs']:
        v.append(('C06/call-thread-exception', f'{out["excs"]}'))
    res = out['res']
    if ('value' in res) == ('exc' in res):
        return v + [('C06/call-no-result', f'{out}')]
    from .c06_call import judge_result
    return v + judge_result(ack_args, out, 'threaded: ')


def job(args):
    env, ack_args = args
    common.setup_imports()
    viols = []
    outcomes = set()

    def on(choices, out):
        outcomes.add(repr(out['res']))
        for key, msg in judge(env, ack_args, out):
            if len(viols) < 3:
                viols.append((key, msg, {'replay': {
                    'module': 'mc.checks.c06_call_threads', 'func': 'replay',
                    'args': [list(env), common.jsonable(ack_args),
                             [c[1] for c in choices]]}}))
    st = threads.explore(scenario_for(env, ack_args), on)
    return env, st, viols, len(outcomes)


def replay(env, ack_args, prefix):
    common.setup_imports()
    ack_args = common.unjson(ack_args)
    choices, out = threads.run_one(scenario_for(tuple(env), ack_args),
                                   list(prefix))
    return judge(tuple(env), ack_args, out)


def run(tier, seed, result):
    jobs = [(env, a) for env in ENVS for a in ACKS]
    total = 0
    for env, st, viols, n in pmap(job, jobs):
        total += st['executions']
        if not st['complete']:
            raise common.HarnessError('threaded call() exploration capped')
        for key, msg, wit in viols:
            result.violation(key, msg, wit)
    result.add('schedules', total)
    result.add('states', total)
    result.add('transitions', total)
    return f'call() on threaded Server: {total} schedules (E3, event-' \
           f'operation granularity, unbounded preemptions)'
