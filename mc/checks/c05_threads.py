"""C05 part 3 (E3): the threaded twin of c05_sched.

Threaded Server, two clients on '/'.  Client A's packets are handled by
separate threads in arrival order (overlapping requests), client B
disconnects / is disconnected / is lost / sends an event on its own thread;
scheduling points before every call the server makes into the client manager
and the transport layer and inside the handlers.  Same oracle as c05_sched:
events that arrive after A's DISCONNECT invoke nothing and are not answered,
events before it are handled and acknowledged once.
"""
from .. import common, threads
from ..par import pmap
from ..worlds import ServerWorld, eio_packet
from . import c05_sched
from .c20 import PointProxy

A_STREAMS = c05_sched.A_STREAMS
B_ACTS = c05_sched.B_ACTS


def scenario_for(astream, bact, async_handlers):
    def scenario(sched):
        w = ServerWorld(is_async=False, namespaces=['/'],
                        async_handlers=async_handlers)
        sio = w.sio
        log = []
        sa_ref = [None]

        @sio.on('disconnect')
        def d(sid, reason):
            log.append(('disconnect', sid))
            if sid == sa_ref[0]:
                in_dh.set()
            sched.point('dh')

        @sio.on('ev')
        def ev(sid, arg):
            log.append(('ev', sid, arg))
            sched.point('eh')
            return 'r'
        # background handler tasks become scheduled threads
        w.sio.eio.start_background_task = \
            lambda target, *a, **k: sched.spawn(target, *a, name='task', **k)
        ta = w.new_transport()
        tb = w.new_transport()
        w.recv_packet(ta, 0, '/')
        w.recv_packet(tb, 0, '/')
        sa, sb = w.sid_of(ta, '/'), w.sid_of(tb, '/')
        sa_ref[0] = sa
        socka, sockb = w.transports[ta], w.transports[tb]
        w.drain_all()
        calls = []
        real_manager, real_eio = sio.manager, sio.eio
        sio.manager = PointProxy(real_manager, sched, 'manager', calls)
        sio.eio = PointProxy(real_eio, sched, 'eio', calls)
        errors = []
        in_dh = sched.event('in-dh')
        cut = astream[1].index('1') + 1

        def a_head():
            # A's packets up to and including its DISCONNECT, one after the
            # other
            for f in astream[1][:cut]:
                sched.point('A-arrive')
                try:
                    socka.receive(eio_packet.Packet(eio_packet.MESSAGE, f))
                except Exception as e:
                    errors.append(('A', repr(e)))

        def a_late(f):
            # a packet of A that is taken up (on another request thread)
            # once the DISCONNECT is being handled
            in_dh.wait()
            sched.point('A-late-arrive')
            try:
                socka.receive(eio_packet.Packet(eio_packet.MESSAGE, f))
            except Exception as e:
                errors.append(('A', repr(e)))

        def b():
            sched.point('B-start')
            try:
                if bact == 'cdisc':
                    sockb.receive(eio_packet.Packet(eio_packet.MESSAGE, '1'))
                elif bact == 'sdisc':
                    sio.disconnect(sb)
                elif bact == 'loss':
                    sockb.close(wait=False, abort=True,
                                reason='transport close')
                    real_eio.sockets.pop(sockb.sid, None)
                elif bact == 'event':
                    sockb.receive(eio_packet.Packet(eio_packet.MESSAGE,
                                                    '29["ev",9]'))
            except Exception as e:
                errors.append(('B', repr(e)))
        sched.spawn(a_head, name='A')
        prev = None
        for i, f in enumerate(astream[1][cut:]):
            sched.spawn(a_late, f, name='A-late%d' % i)
        if bact != 'none':
            sched.spawn(b, name='B')

        def finish(status):
            n = w.namer.norm
            sio.manager, sio.eio = real_manager, real_eio
            out = {'log': [n(e) for e in log], 'sa': n(sa), 'sb': n(sb),
                   'fa': [f for f in w.drain(ta) if f[0] != 'eio'],
                   'fb': [f for f in w.drain(tb) if f[0] != 'eio'],
                   'errors': errors + [(t.name, repr(t.exc))
                                       for t in sched.threads
                                       if t.exc is not None],
                   'loop_errors': [], 'horizon': status != 'done',
                   'parked': [] if status == 'done' else [status]}
            w.close()
            return out
        return finish
    return scenario


def job(args):
    ai, bact, ah, bound, cap = args
    common.setup_imports()
    viols = []

    def on(choices, out):
        for key, msg in c05_sched.judge(A_STREAMS[ai], bact, out):
            if len(viols) < 3:
                viols.append((key.replace('/sched-', '/threads-'),
                              'threaded Server: ' + msg, {'replay': {
                                  'module': 'mc.checks.c05_threads',
                                  'func': 'replay',
                                  'args': [ai, bact, ah,
                                           [c[1] for c in choices]]}}))
    st = threads.explore(scenario_for(A_STREAMS[ai], bact, ah), on,
                         bound=bound, max_execs=cap)
    return st, viols


def replay(ai, bact, ah, prefix):
    common.setup_imports()
    choices, out = threads.run_one(scenario_for(A_STREAMS[ai], bact, ah),
                                   list(prefix))
    return [(k.replace('/sched-', '/threads-'), m)
            for k, m in c05_sched.judge(A_STREAMS[ai], bact, out)]


def run(tier, seed, result):
    bound, cap = (2, 1200) if tier == 'quick' else (3, 15000)
    jobs = [(ai, bact, ah, bound, cap) for ai in range(len(A_STREAMS))
            for bact in B_ACTS for ah in (True, False)]
    total = 0
    capped = 0
    for st, viols in pmap(job, jobs):
        total += st['executions']
        capped += 0 if st['complete'] else 1
        for key, msg, wit in viols:
            result.violation(key, msg, wit)
    result.add('thread_schedules', total)
    return f'E3: events racing disconnects on the threaded Server, ' \
           f'{len(jobs)} scenarios, {total} schedules with <= {bound} ' \
           f'preemptions ({capped} capped at {cap})'
