"""C03 Rooms: an emit reaches exactly the addressed members, once each.

E1 over {connect, disconnect x3 causes, enter, leave, close} with a dict/set
reference room table; at every state every emit(to, skip_sid, namespace)
combination and rooms() are probed on the real server and compared.
"""
from .. import common, e1
from ..worlds import ServerWorld

NSS = ['/', '/x']
UNKNOWN_NS = '/nobody'


class Model:
    def __init__(self, is_async, T, rooms, sidroom, seed, typed=False):
        self.is_async = is_async
        self.T = T
        names = common.rotate(['lobby', 'r-2', '42', 'chat/room', 'Zimmer',
                               'a,b'], seed)
        if typed:
            # room names of different types that print alike
            names = common.rotate([[7, '7'], [True, 'True'], [1.5, '1.5']],
                                  seed)[0]
        self.rooms = names[:rooms]
        self.sidroom = sidroom

    # -- world ---------------------------------------------------------------
    def initial(self):
        w = ServerWorld(is_async=self.is_async, namespaces=list(NSS))
        w.violations = []
        for _ in range(self.T):
            w.new_transport()
        w.slot = list(range(self.T))          # slot -> transport index
        # reference: ns -> room name -> set(slot); personal rooms keyed by sid
        w.ref = {ns: {} for ns in NSS}
        w.sid = {}                            # (slot, ns) -> sid
        w.drain_all()
        return w

    def close(self, w):
        w.close()

    # -- helpers -------------------------------------------------------------
    def _room(self, w, r):
        if r == '@sid':
            return w.sid.get((0, '/'))
        return r

    def ops(self, w):
        ops = []
        for s in range(self.T):
            ops.append(('loss', s))
            for ns in NSS:
                if (s, ns) not in w.sid:
                    ops.append(('connect', s, ns))
                else:
                    ops.append(('cdisc', s, ns))
                    ops.append(('sdisc', s, ns))
                    for r in self.rooms:
                        ops.append(('enter', s, ns, r))
                        ops.append(('leave', s, ns, r))
                        if s in w.ref[ns].get(r, ()):
                            ops.append(('emit+leave', s, ns, r))
                    if self.sidroom and (0, '/') in w.sid and ns == '/' \
                            and s != 0:
                        ops.append(('enter', s, ns, '@sid'))
                        ops.append(('leave', s, ns, '@sid'))
        for ns in NSS:
            for r in self.rooms:
                ops.append(('close', r, ns))
        return ops

    def _bad(self, w, key, msg):
        w.violations.append(('C03/' + key, msg))

    def _forget(self, w, s, ns):
        sid = w.sid.pop((s, ns), None)
        for members in w.ref[ns].values():
            members.discard(s)
        return sid

    def apply(self, w, op):
        kind = op[0]
        r = None
        if kind == 'connect':
            _, s, ns = op
            t = w.slot[s]
            w.recv_packet(t, 0, ns)
            sid = w.sid_of(t, ns)
            if sid is None:
                self._bad(w, 'connect', f'connect {op} was not accepted')
            else:
                w.sid[(s, ns)] = sid
                w.ref[ns].setdefault(sid, set()).add(s)
        elif kind == 'cdisc':
            _, s, ns = op
            r = w.recv_packet(w.slot[s], 1, ns)[0]
            self._forget(w, s, ns)
        elif kind == 'sdisc':
            _, s, ns = op
            r = w.api('disconnect', w.sid[(s, ns)], namespace=ns)
            self._forget(w, s, ns)
        elif kind == 'loss':
            _, s = op
            r = w.lose(w.slot[s])
            for ns in NSS:
                self._forget(w, s, ns)
            w.slot[s] = w.new_transport()
        elif kind == 'enter':
            _, s, ns, room = op
            room = self._room(w, room)
            r = w.api('enter_room', w.sid[(s, ns)], room, namespace=ns)
            w.ref[ns].setdefault(room, set()).add(s)
        elif kind == 'leave':
            _, s, ns, room = op
            room = self._room(w, room)
            r = w.api('leave_room', w.sid[(s, ns)], room, namespace=ns)
            w.ref[ns].get(room, set()).discard(s)
        elif kind == 'emit+leave':
            # emit to the room and leave it right away, issued back to back
            # by one task: the leaver is still addressed by that emit
            _, s, ns, room = op
            sid = w.sid[(s, ns)]
            w.drain_all()
            if w.is_async:
                async def both():
                    await w.sio.emit('pre', 1, to=room, namespace=ns)
                    await w.sio.leave_room(sid, room, namespace=ns)
                r = w.run(both)
            else:
                r = w.api('emit', 'pre', 1, to=room, namespace=ns)
                if r[0] == 'ok':
                    r = w.api('leave_room', sid, room, namespace=ns)
            want = set(w.ref[ns].get(room, set()))
            for s2 in range(self.T):
                frames = [f for f in w.drain(w.slot[s2])
                          if f != ('eio', 'END')]
                exp = [('pkt', 2, ns, None, ['pre', 1])] if s2 in want \
                    else []
                if frames != exp:
                    self._bad(w, 'delivery', f'{op}: slot {s2} got '
                              f'{frames!r}, expected {exp!r}')
            w.ref[ns].get(room, set()).discard(s)
        elif kind == 'close':
            _, room, ns = op
            r = w.api('close_room', room, namespace=ns)
            w.ref[ns].pop(room, None)
        if r is not None and r[0] == 'exc':
            self._bad(w, 'exception', f'{op} raised {r[1:]}')
        w.drain_all()
        w.take_log()

    # -- canonical state -----------------------------------------------------
    def future(self, w):
        return e1.drain_future(self, w, [('loss', s)
                                         for s in range(self.T)])

    def canon(self, w):
        m = w.sio.manager
        eio_to_slot = {w.transports[t].sid: s for s, t in enumerate(w.slot)}
        cur = {sid: ('P', s, ns) for (s, ns), sid in w.sid.items()}
        out = []
        for ns in sorted(m.rooms):
            named, retired = [], []
            for room, b in m.rooms[ns].items():
                members = tuple(sorted(
                    (eio_to_slot.get(e, 'dead'),) for e in b.values()))
                if room is None:
                    named.append(('<ns>', members))
                elif room in cur:
                    named.append((cur[room], members))
                elif room in self.rooms:
                    named.append((room, members))
                else:
                    retired.append(members)
            # retired sid-named rooms: identical member sets are counted
            # up to 2 (nothing in the alphabet can tell 2 from n > 2)
            rc = {}
            for mem in retired:
                rc[mem] = min(2, rc.get(mem, 0) + 1)
            out.append((ns, tuple(sorted(named, key=repr)),
                        tuple(sorted(rc.items()))))
        snap = w.snapshot()
        return (tuple(out), repr(snap['pending']), repr(snap['callbacks']),
                len(snap['environ']), repr(snap['binary']))

    # -- probes --------------------------------------------------------------
    def probe(self, w):
        sio = w.sio
        live = sorted(w.sid)                      # (slot, ns)
        obs = []
        # rooms()
        for (s, ns) in live:
            sid = w.sid[(s, ns)]
            got = w.api('rooms', sid, namespace=ns)
            want = sorted(str(r) for r, mem in w.ref[ns].items() if s in mem)
            if got[0] != 'ok' or sorted(str(x) for x in got[1]) != want:
                self._bad(w, 'rooms', f'rooms({(s, ns)}) = {got!r}, '
                          f'reference {want!r}')
        for ns in NSS + [UNKNOWN_NS]:
            ref = w.ref.get(ns, {})
            sids = [w.sid[k] for k in live if k[1] == ns]
            other = [w.sid[k] for k in live if k[1] != ns]
            targets = [None] + list(self.rooms)
            if len(self.rooms) >= 2:
                targets.append(list(self.rooms[:2]))
                targets.append([self.rooms[1], self.rooms[0], self.rooms[1]])
            targets += sids
            if sids:
                targets.append([self.rooms[0], sids[0]])
            if other:
                targets.append(other[0])   # a sid of another namespace
            skips = [None] + sids[:2]
            if len(sids) >= 2:
                skips.append(sids[:2])
            if sids:
                skips.append([sids[-1], 'no-such-sid'])
            if other:
                skips.append(other[0])
            for to in targets:
                for skip in skips:
                    res = w.api('emit', 'ev', {'n': 1}, to=to, skip_sid=skip,
                                namespace=ns)
                    if res[0] != 'ok':
                        self._bad(w, 'emit-exception',
                                  f'emit(to={to!r}, skip={skip!r}, ns={ns}) '
                                  f'raised {res[1:]}')
                    # reference recipients
                    if to is None:
                        want = set(s for (s, n2) in live if n2 == ns)
                    else:
                        want = set()
                        for room in (to if isinstance(to, list) else [to]):
                            want |= ref.get(room, set())
                    sk = skip if isinstance(skip, list) else [skip]
                    want = {s for s in want if w.sid.get((s, ns)) not in sk}
                    for s in range(self.T):
                        frames = [f for f in w.drain(w.slot[s])
                                  if f != ('eio', 'END')]
                        exp = [('pkt', 2, ns, None, ['ev', {'n': 1}])] \
                            if s in want else []
                        if frames != exp:
                            self._bad(
                                w, 'delivery',
                                f'emit(to={w.namer.norm(to)!r}, '
                                f'skip={w.namer.norm(skip)!r}, ns={ns}): '
                                f'slot {s} got {frames!r}, expected {exp!r}')
                    obs.append(len(want))
        w.obs_key = tuple(obs)


def factory(**params):
    return Model(**params)


e1.register('c03', factory)


def run(tier, seed, result):
    if tier == 'quick':
        cfgs = [dict(T=2, rooms=2, sidroom=False, depth=60),
                dict(T=2, rooms=1, sidroom=True, depth=60),
                dict(T=2, rooms=2, sidroom=False, depth=60, typed=True)]
    else:
        cfgs = [dict(T=3, rooms=2, sidroom=False, depth=60),
                dict(T=2, rooms=2, sidroom=True, depth=60),
                dict(T=3, rooms=1, sidroom=True, depth=9),
                # the small scopes again, with the "every transport is lost"
                # look-ahead as part of the state identity
                dict(T=2, rooms=2, sidroom=False, depth=60, typed=True),
                dict(T=2, rooms=2, sidroom=False, depth=60, fut=True),
                dict(T=2, rooms=1, sidroom=True, depth=60, fut=True)]
    closure = True
    notes = []
    for cfg in cfgs:
        depth = cfg.pop('depth')
        fut = cfg.pop('fut', False)
        for is_async in (False, True):
            params = dict(cfg, is_async=is_async, seed=seed)
            st = e1.explore('c03', params, result, max_depth=depth,
                            use_future=fut)
            closure = closure and st['closure']
            notes.append(f'{params}: {st}')
    from . import c03_sched
    notes.append(c03_sched.run(tier, seed, result))
    from . import c03_threads
    notes.append(c03_threads.run(tier, seed, result))
    result.assumptions += [
        'engine.io, bidict trusted; transports are real engineio sockets '
        'with the network cut',
        'loss of a transport is immediately followed by a fresh transport in '
        'the same slot (keeps the space finite)',
        'canonical state identifies clients by transport slot, not by sid; '
        'rooms named after retired sids are kept as an unnamed multiset',
    ]
    return dict(
        rule='BFS over all histories of {connect, client/server disconnect, '
             'transport loss, enter, leave, close} to closure; a state is '
             'non-trivial/distinct by its canonical room table; every state '
             'is probed with every emit(to, skip_sid, namespace) combination; '
             'E2: every interleaving of one AsyncServer emit with concurrent '
             'membership changes, suspended at every transport write',
        explanation='; '.join(notes),
        exhaustive=closure)
