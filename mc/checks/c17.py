"""C17 Class-based namespace helpers forward every argument (E4 over
signatures read from the real classes)."""
import asyncio
import inspect
import itertools

import socketio

from .. import common
from ..vloop import VLoop, install

LEVEL = 'exploration'

SERVER_HELPERS = ['emit', 'send', 'call', 'enter_room', 'leave_room',
                  'close_room', 'rooms', 'get_session', 'save_session',
                  'session', 'disconnect']
CLIENT_HELPERS = ['emit', 'send', 'call', 'disconnect']
FALSY = [0, '', [], False, 0.0, {}]
# values of every kind a payload / room / sid may have; identity is what is
# compared, so any conversion or copy on the way is seen
TYPED = [('a', 'b'), (), ['x', ['y']], {'k': (1, 2)}, b'by', 7, 'txt',
         (['x'],), 1.0, None]


class Sentinel:
    def __init__(self, name):
        self.name = name

    def __repr__(self):
        return '<%s>' % self.name


def recorder_class(base, helpers, is_async, calls, results):
    d = {}
    for name in helpers:
        sig = inspect.signature(getattr(base, name))
        real = getattr(base, name)

        def make(name, sig, coro):
            if coro:
                async def rec(self, *a, **k):
                    b = sig.bind(self, *a, **k)
                    calls.append((name, dict(b.arguments)))
                    results[name] = Sentinel('result-%s-%d' % (
                        name, len(calls) + id(calls) % 7))
                    return results[name]
            else:
                def rec(self, *a, **k):
                    b = sig.bind(self, *a, **k)
                    calls.append((name, dict(b.arguments)))
                    results[name] = Sentinel('result-%s-%d' % (
                        name, len(calls) + id(calls) % 7))
                    return results[name]
            return rec
        d[name] = make(name, sig, inspect.iscoroutinefunction(real))
    return type('Rec' + base.__name__, (base,), d)


def cases():
    return [
        ('Namespace', socketio.Namespace, socketio.Server, SERVER_HELPERS,
         False, True),
        ('AsyncNamespace', socketio.AsyncNamespace, socketio.AsyncServer,
         SERVER_HELPERS, True, True),
        ('ClientNamespace', socketio.ClientNamespace, socketio.Client,
         CLIENT_HELPERS, False, False),
        ('AsyncClientNamespace', socketio.AsyncClientNamespace,
         socketio.AsyncClient, CLIENT_HELPERS, True, False),
    ]


def run(tier, seed, result):
    loop = install(VLoop())
    reg_namespaces = common.rotate(['/ns', '/', '/chat/1'], seed)[:2]
    total = 0
    nontrivial = 0
    for cname, nscls, tcls, helpers, is_async, is_server in cases():
        # a fresh object, and one that has already served events (the
        # catch-all registration '*' serves concrete namespaces)
        for regns, used in [(r, u) for r in reg_namespaces + ['*']
                            for u in (False, True)]:
            calls = []
            results = {h: Sentinel('result-' + h) for h in helpers}
            Rec = recorder_class(tcls, helpers, is_async, calls, results)
            if is_server:
                target = Rec(async_mode='asgi' if is_async else 'threading')
            else:
                target = Rec(handle_sigint=False)
            served = []
            if is_async:
                class Used(nscls):
                    async def on_my_event(self, *a):
                        served.append(a)
            else:
                class Used(nscls):
                    def on_my_event(self, *a):
                        served.append(a)
            Used.__name__ = nscls.__name__
            ns = Used(regns)
            target.register_namespace(ns)
            if used:
                concrete = '/served' if regns == '*' else regns
                for ev in ('my_event', 'other'):
                    a = ('sid1', 1) if is_server else (1,)
                    r = target._trigger_event(ev, concrete, *a)
                    if asyncio.iscoroutine(r):
                        loop.run_value(r)
                if len(served) != 1:
                    raise common.HarnessError(
                        f'{cname}({regns!r}) did not serve the event: '
                        f'{served}')
            for h in helpers:
                hsig = inspect.signature(getattr(nscls, h))
                tsig = inspect.signature(getattr(tcls, h))
                hparams = [p for p in hsig.parameters.values()
                           if p.name != 'self']
                tnames = set(tsig.parameters) - {'self'}
                required = [p for p in hparams
                            if p.default is inspect.Parameter.empty]
                optional = [p for p in hparams
                            if p.default is not inspect.Parameter.empty
                            and p.name in tnames]
                for r in range(len(optional) + 1):
                    for subset in itertools.combinations(optional, r):
                        modes = [False, True] + [
                            ('typed', j) for j in range(
                                len(TYPED) if len(subset) <= 1 else 1)]
                        for falsy in modes:
                            for style in ('kw', 'pos'):
                                ok = one_call(cname, h, ns, regns, target,
                                              calls, results, required,
                                              subset, hparams, falsy, style,
                                              is_async, loop, result, total,
                                              [n for n in tsig.parameters
                                               if n != 'self'])
                                if ok is None:
                                    continue
                                total += 1
                                if subset:
                                    nontrivial += 1
    loop.close()
    asyncio.set_event_loop(None)
    result.add('evaluations', total)
    result.add('distinct_nontrivial', nontrivial)
    result.sample({'class': 'AsyncNamespace', 'helper': 'emit',
                   'supplied': ['event', 'data', 'skip_sid', 'namespace'],
                   'style': 'kw', 'falsy_values': True})
    result.assumptions += [
        'what an omitted optional argument other than namespace defaults to '
        'is not part of the claim; parameters the target lacks are skipped',
    ]
    return dict(
        rule='for each of the 4 namespace classes x each helper x every '
             'subset of the optional parameters (read with inspect.signature '
             'from the real classes) x {keyword, positional-prefix} x '
             '{truthy sentinels, falsy-but-meaningful values} x 2 '
             'registration namespaces: call the helper on a namespace '
             'registered with a recording subclass of the real server/'
             'client; non-trivial = at least one optional argument supplied',
        explanation='complete enumeration of the stated product',
        exhaustive=True)


def one_call(cname, h, ns, regns, target, calls, results, required, subset,
             hparams, falsy, style, is_async, loop, result, k, torder):
    supplied = {}
    typed = isinstance(falsy, tuple)
    j = falsy[1] if typed else 0
    if typed:
        falsy = False
    for i, p in enumerate(required):
        supplied[p.name] = Sentinel('req-' + p.name) if not typed \
            else TYPED[(j + 3 * i + 1) % len(TYPED)]
    for i, p in enumerate(subset):
        if typed and p.name != 'namespace':
            supplied[p.name] = TYPED[(j + i) % len(TYPED)]
            continue
        if p.name == 'namespace':
            # an explicit override, including the default namespace given
            # explicitly to an object registered elsewhere
            supplied[p.name] = '/' if (falsy and regns != '/') \
                else '/override'
        elif falsy:
            supplied[p.name] = FALSY[(k + i) % len(FALSY)]
        else:
            supplied[p.name] = Sentinel('opt-' + p.name)
    if style == 'pos':
        # a caller passing arguments positionally relies on the order of
        # the underlying method: the i-th value must reach the parameter
        # that is i-th there.  Only prefixes of that order can be given
        # positionally; a helper parameter the target lacks (vestigial)
        # ends the comparable prefix.
        hnames = [p.name for p in hparams]
        prefix = []
        for i, n in enumerate(torder):
            if n in supplied and i < len(hnames) and \
                    hnames[i] in torder:
                prefix.append(n)
            else:
                break
        if set(prefix) != set(supplied):
            return None
        args = [supplied[n] for n in prefix]
        kwargs = {}
    else:
        args = [supplied[p.name] for p in required]
        kwargs = {p.name: supplied[p.name] for p in subset}
    what = f'{cname}({regns!r}).{h}({style}: ' \
           f'{", ".join(f"{n}={v!r}" for n, v in supplied.items())})'
    key = f'C17/{cname}.{h}'
    try:
        # the same call twice: every call is forwarded and hands back
        # what *that* call produced
        r0 = getattr(ns, h)(*args, **kwargs)
        if asyncio.iscoroutine(r0):
            r0 = loop.run_value(r0)
        del calls[:]
        r = getattr(ns, h)(*args, **kwargs)
        if asyncio.iscoroutine(r):
            r = loop.run_value(r)
    except Exception as e:
        result.violation(key + '/exception', f'{what} raised {e!r}',
                         {'call': what, 'rerun': {'module': 'mc.checks.c17',
                                                 'func': 'rerun'}})
        return True
    if len(calls) != 1 or calls[0][0] != h:
        result.violation(key + '/target', f'{what}: underlying calls '
                         f'{calls!r}', {'call': what, 'rerun': {'module': 'mc.checks.c17',
                                                 'func': 'rerun'}})
        return True
    got = calls[0][1]
    for n, v in supplied.items():
        if v is None and n in got and got[n] is None:
            continue
        if n not in got or got[n] is not v:
            result.violation(
                key + '/' + n, f'{what}: parameter {n!r} arrived as '
                f'{got.get(n, "<absent>")!r}', {'call': what, 'rerun': {'module': 'mc.checks.c17',
                                                 'func': 'rerun'}})
    if 'namespace' in got or any(p.name == 'namespace' for p in hparams):
        if 'namespace' not in supplied and got.get('namespace') != regns:
            result.violation(
                key + '/namespace-default', f'{what}: namespace arrived as '
                f'{got.get("namespace")!r}, registered for {regns!r}',
                {'call': what, 'rerun': {'module': 'mc.checks.c17',
                                                 'func': 'rerun'}})
    if r is not results[h]:
        result.violation(key + '/result', f'{what}: returned {r!r}, target '
                         f'returned {results[h]!r}', {'call': what, 'rerun': {'module': 'mc.checks.c17',
                                                 'func': 'rerun'}})
    return True


def rerun(result):
    common.setup_imports()
    run('quick', common.seed_from_env(), result)
