"""C10 Client reconnection: only after accidental loss, bounded back-off and
attempts (fault enumeration on the client world).

Every word over {transport failure, namespace refused, success} for the
successive attempts, every cause of loss, shutdown() at every back-off wait,
a loss right after / during a successful attempt, over a parameter grid.
Waiting is observed through the wait primitives only.
"""
import itertools

import asyncio

from .. import common
from ..cworld import ClientWorld, SeqEvent
from ..par import pmap

LEVEL = 'fault_enumeration'

CAUSES = ['transport-error', 'client-disconnect', 'server-disconnect',
          'server-close', 'ns-closed-then-transport-error']
NSS = ['/', '/a']
URL = 'http://host:1/x?y=1'
HEADERS = {'X-H': 'v'}
AUTH = {'token': 't'}
TRANSPORTS = ['polling']
PATH = 'my.io'


class FakeRandom:
    def __init__(self, j):
        self.j = j

    def random(self):
        return self.j


def expected_delay(k, d, dmax, rf, j):
    base = min(d * 2 ** (k - 1), dmax)
    return base + rf * (2 * j - 1)


def run_case(is_async, cause, recon, word, shutdown_at, extra, params, j,
             auth_mode='value', obs=None):
    """One fault sequence.  Returns list of (key, msg).  `obs` (a dict)
    receives the raw observations (used by C14's twin comparison)."""
    if obs is None:
        obs = {}
    d, dmax, rf, attempts = params
    v = []
    tag = f'{"Async" if is_async else ""}Client cause={cause} ' \
          f'reconnection={recon} attempts-word={word} ' \
          f'shutdown_at={shutdown_at} extra={extra} ' \
          f'delay={d} max={dmax} rf={rf} attempts={attempts} jitter={j}'

    def bad(key, msg):
        v.append(('C10/' + key, f'{tag}: {msg}'))
    import socketio.client as cmod
    import socketio.async_client as amod
    mod = amod if is_async else cmod
    saved = mod.random
    mod.random = FakeRandom(j)
    w = ClientWorld(is_async=is_async, reconnection=recon,
                    reconnection_attempts=attempts, reconnection_delay=d,
                    reconnection_delay_max=dmax, randomization_factor=rf)
    try:
        c = w.c
        log = w.log
        for ns in NSS:
            def mk(ns):
                if is_async:
                    async def con():
                        log.append(('connect', ns))

                    async def dis(reason):
                        log.append(('disconnect', ns, reason))
                else:
                    def con():
                        log.append(('connect', ns))

                    def dis(reason):
                        log.append(('disconnect', ns, reason))
                c.on('connect', con, namespace=ns)
                c.on('disconnect', dis, namespace=ns)
            mk(ns)
        sidn = [0]

        def accept_frames():
            out = []
            for ns in NSS:
                sidn[0] += 1
                nsp = '' if ns == '/' else ns + ','
                out.append(['0%s{"sid":"S%d"}' % (nsp, sidn[0])])
            return out
        auth_calls = []

        def auth_fn():
            # documented: invoked on every connection and reconnection
            auth_calls.append(1)
            return {'token': 't', 'n': len(auth_calls)}

        async def auth_afn():
            auth_calls.append(1)
            return {'token': 't', 'n': len(auth_calls)}
        auth_arg = AUTH if auth_mode == 'value' else (
            auth_afn if (auth_mode == 'coroutine' and is_async) else auth_fn)
        r = w.connect(script=accept_frames(), url=URL, headers=HEADERS,
                      auth=auth_arg, transports=TRANSPORTS,
                      namespaces=list(NSS), socketio_path=PATH)
        if r[0] != 'ok':
            raise common.HarnessError(f'initial connect failed {r}')
        w.take_outbox()
        w.take_log()
        ncalls0 = len(w.connect_calls)
        waits = []          # delays handed to the back-off wait
        state = {'attempt': 0, 'shutdown_done': False, 'tasks': [],
                 'overlap': False}
        word_left = list(word)

        # -- environment script for the attempts -----------------------
        def next_attempt_script():
            """Called when a back-off wait expires: prepare what the next
            attempt will meet."""
            state['attempt'] += 1
            outcome = word_left.pop(0) if word_left else 'ok'
            state['outcome'] = outcome
            if outcome == 'fail':
                w.connect_script = ['fail']
                return []
            w.connect_script = ['ok']
            if outcome == 'refuse':
                return [['0{"sid":"R%d"}' % state['attempt']],
                        ['4/a,{"message":"no"}']]
            if outcome == 'silence':
                return [['0{"sid":"R%d"}' % state['attempt']]]
            return accept_frames()

        if not is_async:
            abort_events = []
            orig_factory = w.event_factory

            def on_wait(ev, timeout):
                if ev is getattr(c, '_reconnect_abort', None):
                    waits.append(timeout)
                    k = len(waits)
                    if shutdown_at == k and not state['shutdown_done']:
                        state['shutdown_done'] = True
                        # the application calls shutdown() while the task
                        # sits in its k-th back-off wait
                        c.shutdown()
                        return
                    frames = next_attempt_script()
                    w.wait_script = [
                        (lambda fr=fr: [w.deliver_raw(f) for f in fr])
                        for fr in frames]
                    if extra == 'loss-during-attempt' and \
                            state['outcome'] == 'ok' and frames and \
                            not state.get('extra_done'):
                        state['extra_done'] = True
                        # the transport drops while the attempt waits for
                        # the second namespace
                        w.wait_script.insert(1, lambda: _lose_raw(w))
                    return
                if w.wait_script:
                    step = w.wait_script.pop(0)
                    step()
                    w.run_tasks()
            w.on_wait = on_wait

            def start_task(target, *a, **k):
                from ..worlds import DeferredTask
                t = DeferredTask(w, target, a, k)
                if getattr(target, '__name__', '') == '_handle_reconnect':
                    if any(not x.done for x in state['tasks']):
                        state['overlap'] = True
                    state['tasks'].append(t)
                w.tasks.append(t)
                return t
            w.start_task = start_task
            # --- the loss ---
            _cause(w, cause, is_async)
            w.run_tasks()
            if extra == 'second-loss' and c.connected:
                w.take_log()
                _cause(w, 'transport-error', is_async)
                w.run_tasks()
        else:
            v += _run_async(w, cause, shutdown_at, extra, state, waits,
                            next_attempt_script, bad)
        # ---------------------------------------------------------------
        calls = w.connect_calls[ncalls0:]
        obs.update(calls=[dict(x) for x in calls], waits=list(waits),
                   auth_calls=len(auth_calls), final=(
                       c.connected, sorted(c.namespaces)))
        accidental = cause in ('transport-error',
                            'ns-closed-then-transport-error')
        should = recon and accidental
        if not should:
            if calls:
                bad('reconnect-not-allowed', f'{len(calls)} connection '
                    f'attempt(s) were made')
            if waits:
                bad('reconnect-not-allowed', f'back-off waits {waits}')
            return v
        # attempts made vs. the reference
        exp_attempts = 0
        exp_success = False
        for i, o in enumerate(word + ('ok',) * 10):
            if shutdown_at is not None and shutdown_at == i + 1:
                break
            exp_attempts += 1
            if o == 'ok':
                exp_success = True
                break
            if attempts and exp_attempts >= attempts:
                break
        if extra == 'loss-during-attempt' and exp_success:
            # the attempt that was hit by the loss fails; the same effort
            # carries on with the next attempt (which succeeds)
            exp_success = 'after-extra'
        if extra in ('second-loss',) and exp_success:
            pass
        n_first_effort = exp_attempts
        got_attempts = len(calls)
        if extra is None:
            if got_attempts != exp_attempts:
                bad('attempt-count', f'{got_attempts} attempts, expected '
                    f'{exp_attempts} (calls {len(calls)}, waits {waits})')
        elif extra == 'loss-during-attempt':
            if exp_success == 'after-extra' and not (
                    attempts and exp_attempts >= attempts):
                if got_attempts != exp_attempts + 1:
                    bad('attempt-count', f'{got_attempts} attempts with a '
                        f'loss during attempt {exp_attempts}, expected '
                        f'{exp_attempts + 1}')
        if extra == 'second-loss' and exp_success is True:
            # the second accidental loss starts a new effort whose first
            # attempt succeeds
            if got_attempts != exp_attempts + 1:
                bad('no-second-effort', f'{got_attempts} attempts in total, '
                    f'expected {exp_attempts} + 1 after the second loss')
            elif not c.connected:
                bad('no-second-effort', 'not connected after the second '
                    'reconnection')
        if state['overlap']:
            bad('two-efforts', 'a second reconnection task was started '
                'while one was still running')
        # every attempt uses the original parameters
        for i, call in enumerate(calls):
            want = {'url': URL, 'headers': HEADERS, 'transports': TRANSPORTS,
                    'path': PATH}
            if call != want:
                bad('attempt-parameters', f'attempt {i + 1} used {call}, '
                    f'expected {want}')
        # back-off waits
        exp_waits = min(len(waits), n_first_effort + (
            1 if shutdown_at is not None else 0))
        first = waits[:n_first_effort + (1 if shutdown_at else 0)]
        for k, got in enumerate(first, 1):
            want = expected_delay(k, d, dmax, rf, j)
            if got is None or abs(got - want) > 1e-9:
                bad('backoff-delay', f'wait before attempt {k} was {got}, '
                    f'expected {want} (min({d}*2^{k - 1}, {dmax}) '
                    f'{rf * (2 * j - 1):+})')
        # CONNECT packets of every attempt that got a transport
        out = [f for f in w.take_outbox() if f[0] == 'pkt' and f[1] == 0]
        obs['connect_packets'] = list(out)
        n_transport = sum(1 for i in range(len(calls))
                          if (list(word) + ['ok'] * 10)[i] != 'fail') \
            if extra is None else None
        if n_transport is not None:
            if auth_mode == 'value':
                want = [('pkt', 0, ns, None, AUTH)
                        for _ in range(n_transport) for ns in NSS]
            else:
                # call #1 was the initial connection; every attempt that got
                # a transport evaluates the callable afresh
                want = [('pkt', 0, ns, None, {'token': 't', 'n': k + 2})
                        for k in range(n_transport) for ns in NSS]
            if out != want:
                bad('attempt-connect-packets', f'CONNECT packets {out}, '
                    f'expected {want}')
        lg = w.take_log()
        obs['log'] = list(lg)
        if extra is None and shutdown_at is None:
            if exp_success:
                conn = sorted(e for e in lg if e[0] == 'connect')
                # refused attempts may have run connect handlers for the
                # namespaces that were accepted; the successful one must
                # have run them for all
                need = [('connect', ns) for ns in NSS]
                if not all(conn.count(x) >= 1 for x in need):
                    bad('connect-handlers-after-success', f'handler log '
                        f'{lg}')
                if not c.connected or sorted(c.namespaces) != NSS:
                    bad('not-connected-after-success', f'connected='
                        f'{c.connected} namespaces={c.namespaces}')
                pass
            else:
                if c.connected:
                    bad('connected-after-giving-up', 'client reports '
                        'connected')
        if shutdown_at is not None and shutdown_at <= len(waits):
            if len(calls) != shutdown_at - 1 if not word[:shutdown_at - 1] \
                    .count('ok') else False:
                bad('attempt-after-shutdown', f'{len(calls)} attempts '
                    f'although shutdown() came during wait {shutdown_at}')
            if any(not t.done for t in state['tasks']):
                bad('task-alive-after-shutdown', 'reconnect task still '
                    'alive')
    finally:
        mod.random = saved
        w.close()
    return v


def _lose_raw(w):
    eio = w.eio
    if eio.state == 'connected':
        eio._trigger_event('disconnect', eio.reason.TRANSPORT_ERROR,
                           run_async=False)
        eio._reset()


def _cause(w, cause, is_async):
    if cause == 'transport-error':
        return w.lose()
    if cause == 'ns-closed-then-transport-error':
        # the server ends one of the two namespaces (the client stays
        # connected on the other), then the transport is lost by accident:
        # the effort reconnects with the original parameters
        w.deliver_packet(1, '/a')
        w.take_log()
        return w.lose()
    if cause == 'client-disconnect':
        return w.api('disconnect')
    if cause == 'server-disconnect':
        w.deliver_packet(1, '/a')
        return w.deliver_packet(1, '/')
    if cause == 'server-close':
        return w.server_close()


def _run_async(w, cause, shutdown_at, extra, state, waits,
               next_attempt_script, bad):
    """Drive the asyncio client: the chooser fires timers (back-off waits)
    and lets the scripted server answer; shutdown() is injected at the k-th
    back-off wait."""
    import asyncio
    from engineio import packet as eio_packet
    loop = w.loop
    c = w.c
    v = []
    real_wait_for = asyncio.wait_for
    tasks = []
    state['tasks'] = tasks

    # observe the back-off waits through the wait primitive
    async def wait_for(fut, timeout):
        ev = getattr(c, '_reconnect_abort', None)
        is_backoff = ev is not None and getattr(
            fut, 'cr_frame', None) is not None and \
            fut.cr_frame.f_locals.get('self') is ev
        if is_backoff:
            waits.append(timeout)
            k = len(waits)
            if shutdown_at == k and not state['shutdown_done']:
                state['shutdown_done'] = True
                loop.create_task(c.shutdown())
            else:
                frames = next_attempt_script()

                async def server(frames=frames):
                    for i, fr in enumerate(frames):
                        await loop.point('server-answer')
                        if extra == 'loss-during-attempt' and i == 1 and \
                                state['outcome'] == 'ok' and \
                                not state.get('extra_done'):
                            state['extra_done'] = True
                            eio = w.eio
                            if eio.state == 'connected':
                                await eio._trigger_event(
                                    'disconnect', eio.reason.TRANSPORT_ERROR,
                                    run_async=False)
                                await eio._reset()
                            return
                        for f in fr:
                            if w.eio.state == 'connected':
                                await w.eio._receive_packet(
                                    eio_packet.Packet(eio_packet.MESSAGE, f))
                state['server'] = server
        return await real_wait_for(fut, timeout)
    import socketio.async_client as amod
    amod.asyncio.wait_for = wait_for if False else amod.asyncio.wait_for
    saved = asyncio.wait_for
    asyncio.wait_for = wait_for
    orig_connect = w.eio.connect

    async def connect(*a, **k):
        r = await orig_connect(*a, **k)
        srv = state.pop('server', None)
        if srv is not None:
            loop.create_task(srv())
        return r
    w.eio.connect = connect
    orig_start = w.eio.start_background_task

    def start_background_task(target, *a, **k):
        t = orig_start(target, *a, **k)
        if getattr(target, '__name__', '') == '_handle_reconnect':
            if any(not x.done() for x in tasks):
                state['overlap'] = True
            tasks.append(_TaskView(t))
        return t
    w.eio.start_background_task = start_background_task
    from ..vloop import HorizonHit
    try:
        _cause(w, cause, True)
        w.loop.run()
        if extra == 'second-loss' and c.connected:
            w.take_log()
            _cause(w, 'transport-error', True)
            w.loop.run()
    except HorizonHit:
        # the environment script is finite (every attempt beyond the word
        # succeeds), so an effort that is still busy after the horizon
        # never stops
        bad('effort-never-ends', f'the reconnection effort was still making '
            f'attempts after {loop.horizon} scheduling steps '
            f'({len(w.connect_calls)} connection attempts, waits '
            f'{waits[:8]}...)')
        loop.horizon = 10 ** 9
    finally:
        asyncio.wait_for = saved
    return v


class _TaskView:
    def __init__(self, t):
        self.t = t

    @property
    def done(self):
        return self.t.done()


def words(maxlen):
    out = [()]
    for n in range(1, maxlen + 1):
        for wd in itertools.product(['fail', 'refuse', 'ok'], repeat=n):
            # a word ends at its first success
            if 'ok' in wd[:-1]:
                continue
            out.append(wd)
    return out


def bystander_case(is_async, who):
    """Two clients in one process lose their transports.  The application
    calls shutdown() (who='shutdown') or disconnect() (who='disconnect') on
    client X while client Y sits in its first back-off wait: Y's effort is
    none of X's business and must go on to reconnect."""
    v = []
    tag = f'{"Async" if is_async else ""}Client X.{who}() during Y\'s ' \
          f'back-off'
    import socketio.client as cmod
    import socketio.async_client as amod
    from socketio import base_client
    mod = amod if is_async else cmod
    saved = mod.random
    mod.random = FakeRandom(0.5)
    kw = dict(reconnection=True, reconnection_delay=1,
              reconnection_delay_max=5, randomization_factor=0)
    held = []
    if is_async:
        from ..vloop import VLoop, install
        loop = install(VLoop())
        wx = ClientWorld(is_async=True, loop=loop, **kw)
        wy = ClientWorld(is_async=True, loop=loop, **kw)
    else:
        class Held:
            def __init__(self, target, args):
                self.target, self.args = target, args

            def join(self, timeout=None):
                pass

            def is_alive(self):
                return True
        def factory(target, *a, **k):
            # X's reconnection effort stays pending; everything else
            # (message tasks) runs as usual
            if getattr(target, '__name__', '') == '_handle_reconnect':
                held.append(Held(target, a))
                return held[-1]
            from ..worlds import DeferredTask
            t = DeferredTask(wx, target, a, k)
            wx.tasks.append(t)
            return t
        wx = ClientWorld(is_async=False, task_factory=factory, **kw)
        wy = ClientWorld(is_async=False, **kw)
    try:
        for w in (wx, wy):
            r = w.connect(script=[['0{"sid":"S"}']], namespaces=['/'])
            if r[0] != 'ok':
                raise common.HarnessError(f'bystander set-up: {r}')
            w.take_outbox()
        state = {'done': False}

        def act():
            state['done'] = True
            return wx.c.shutdown() if who == 'shutdown' else \
                wx.c.disconnect()
        if is_async:
            # X loses its transport first (its effort starts its back-off),
            # then Y; the application acts on X at Y's first back-off wait
            real_wait_for = asyncio.wait_for

            async def wait_for(fut, timeout):
                ev = getattr(wy.c, '_reconnect_abort', None)
                is_y = ev is not None and getattr(
                    fut, 'cr_frame', None) is not None and \
                    fut.cr_frame.f_locals.get('self') is ev
                if is_y and not state['done']:
                    loop.create_task(act())

                    async def server():
                        from engineio import packet as eio_packet
                        for _ in range(50):
                            await asyncio.sleep(0.5)
                            if wy.eio.state == 'connected' and \
                                    not wy.c.connected:
                                await wy.eio._receive_packet(
                                    eio_packet.Packet(eio_packet.MESSAGE,
                                                      '0{"sid":"S2"}'))
                                return
                    loop.create_task(server())
                return await real_wait_for(fut, timeout)
            asyncio.wait_for = wait_for
            try:
                loop.time_limit = loop.time() + 0.5   # no back-off expires
                wx.lose()
                wy.lose()
                loop.time_limit = loop.time() + 30
                loop.run()
            finally:
                asyncio.wait_for = real_wait_for
        else:
            wx.lose()                 # X's effort is pending (task held)

            def on_wait(ev, timeout):
                if ev is getattr(wy.c, '_reconnect_abort', None):
                    if not state['done']:
                        act()
                    wy.wait_script = [lambda: wy.deliver_raw(
                        '0{"sid":"S2"}')]
                    return
                if wy.wait_script:
                    wy.wait_script.pop(0)()
                    wy.run_tasks()
            wy.on_wait = on_wait
            wy.lose()
        if not state['done']:
            raise common.HarnessError('bystander: Y never reached a '
                                      'back-off wait')
        if not wy.c.connected or len(wy.connect_calls) != 2:
            v.append(('C10/bystander-aborted', f'{tag}: Y made '
                      f'{len(wy.connect_calls) - 1} reconnection attempt(s) '
                      f'and is {"" if wy.c.connected else "not "}connected '
                      f'(expected: one attempt, reconnected)'))
    finally:
        mod.random = saved
        wx.close()
        if not is_async:
            wy.close()
        del base_client.reconnecting_clients[:]
    return v


def replay_bystander(is_async, who):
    common.setup_imports()
    return bystander_case(is_async, who)


def job(args):
    is_async, cases = args
    common.setup_imports()
    viols = []
    n = 0
    for case in cases:
        n += 1
        try:
            v = run_case(is_async, *case)
        except common.HarnessError:
            raise
        for key, msg in v:
            if len(viols) < 40:
                viols.append((key, msg, {'replay': {
                    'module': 'mc.checks.c10', 'func': 'replay',
                    'args': [is_async, common.jsonable(list(case))]}}))
    return n, viols


def replay(is_async, case):
    common.setup_imports()
    case = common.unjson(case)
    case = [tuple(x) if isinstance(x, list) else x for x in case]
    return run_case(is_async, *case)


def run(tier, seed, result):
    maxlen = 4 if tier == 'quick' else 6
    grid_d = [0.1, 1]
    grid_max = [0.5, 5]
    grid_rf = [0, 0.5]
    grid_att = [0, 1, 3]
    jitters = common.rotate([0.0, 0.5, 0.999999], seed)
    cases = []
    base = (1, 5, 0.5, 0)
    # 1. causes x reconnection on/off
    for cause in CAUSES:
        for recon in (True, False):
            cases.append((cause, recon, ('fail', 'ok'), None, None, base,
                          0.5))
    # 2. failure words x attempts caps (default timing)
    for wd in words(maxlen):
        for att in grid_att:
            cases.append(('transport-error', True, wd, None, None,
                          (1, 5, 0.5, att), jitters[0]))
    # 2b. auth given as a callable / coroutine function
    for wd in [(), ('fail',), ('refuse', 'ok'), ('fail', 'refuse', 'ok')]:
        for mode in ('callable', 'coroutine'):
            cases.append(('transport-error', True, wd, None, None, base,
                          0.5, mode))
    # 3. timing grid x jitter over a fixed long word
    for d in grid_d:
        for dm in grid_max:
            for rf in grid_rf:
                for j in jitters:
                    cases.append(('transport-error', True,
                                  ('fail',) * 5, None, None,
                                  (d, dm, rf, 0), j))
    cases.append(('transport-error', True, ('fail',) * 4, None, None,
                  (5, 2, 0, 0), 0.5))
    # 4. shutdown at every back-off wait
    for wd in words(min(maxlen, 4)):
        for k in range(1, len(wd) + 2):
            if 'ok' in wd[:k - 1]:
                continue
            cases.append(('transport-error', True, wd, k, None, base, 0.5))
    # 5. a further loss right after a success / during an attempt
    for wd in [(), ('fail',), ('refuse',), ('fail', 'refuse')]:
        cases.append(('transport-error', True, wd, None, 'second-loss',
                      base, 0.5))
        cases.append(('transport-error', True, wd, None,
                      'loss-during-attempt', base, 0.5))
    jobs = []
    for is_async in (False, True):
        for i in range(0, len(cases), 40):
            jobs.append((is_async, cases[i:i + 40]))
    total = 0
    for n, viols in pmap(job, jobs):
        total += n
        seen = set()
        for key, msg, wit in viols:
            result.violation(key, msg, wit)
    for is_async in (False, True):
        for who in ('shutdown', 'disconnect'):
            if who == 'shutdown' and not is_async:
                # in the sequential world X's effort cannot sit in its own
                # back-off while Y's does
                continue
            total += 1
            for key, msg in bystander_case(is_async, who):
                result.violation(key, msg, {'replay': {
                    'module': 'mc.checks.c10', 'func': 'replay_bystander',
                    'args': [is_async, who]}})
    result.add('evaluations', total)
    result.add('distinct_nontrivial', len(cases) * 2 - 16)
    result.add('fault_words', len(words(maxlen)))
    result.sample({'cause': 'transport-error', 'attempts': ['fail', 'refuse',
                                                            'ok'],
                   'shutdown_at_wait': None, 'params': list(base)})
    result.sample({'cause': 'transport-error', 'attempts': ['fail', 'fail'],
                   'shutdown_at_wait': 2, 'params': list(base)})
    result.assumptions += [
        'the back-off is observed through the timeout handed to the abort '
        'wait (threaded) / asyncio.wait_for (asyncio); no wall clock',
        'random.random is replaced by a constant jitter in {0, 0.5, ~1}',
    ]
    return dict(
        rule='fault sequences = every word over {transport failure, '
             'namespace refused, success} up to length %d for the successive '
             'attempts x attempts cap {0,1,3}; 4 causes of loss x '
             'reconnection on/off; timing grid delay x delay_max x '
             'randomization x 3 jitter values (incl. delay > delay_max); '
             'shutdown() at every back-off wait; a second loss after success '
             'and a loss during an attempt; Client and AsyncClient. '
             'Non-trivial = cases where reconnection is attempted.' % maxlen,
        explanation='complete enumeration of the stated fault sequences',
        exhaustive=True)
