"""C19 (E2): AsyncSimpleClient under every order of arrivals, receives and
timers."""
import asyncio

import socketio

from .. import common, e2
from ..cworld import ClientWorld
from ..par import pmap
from engineio import packet as eio_packet
from .c19 import SCENARIOS, NSP, judge as judge_threads


def scenario_for(name):
    producer_script, consumer_script, opts = SCENARIOS[name]

    def scenario(loop):
        recon = opts.get('reconnection', False)
        loop.setup = True
        w = ClientWorld(is_async=True, loop=loop, instantiate=False,
                        reconnection=recon, reconnection_attempts=1,
                        reconnection_delay=1, randomization_factor=0)

        class SC(socketio.AsyncSimpleClient):
            client_class = w.C
        sc = SC(**w.client_kwargs)
        nconn = [0]
        back_ref = [None]
        deliver_ref = [None]

        async def send_hook(pkt):
            # the server accepts every namespace CONNECT; its answer comes
            # back through the read loop, i.e. on a task of its own
            if pkt.packet_type == eio_packet.MESSAGE and \
                    isinstance(pkt.data, str) and pkt.data[:1] == '0':
                nconn[0] += 1
                n = nconn[0]

                async def answer():
                    await loop.point('server-accepts')
                    if w.eio.state != 'connected':
                        return
                    await sc.client._handle_eio_message('0%s{"sid":"S%d"}' % (
                        NSP(opts), n))
                    if n >= 2 and opts.get('greeting'):
                        await deliver_ref[0](opts['greeting'])
                    if n >= 2:
                        back_ref[0].set()
                loop.create_task(answer())
        w.send_hook = send_hook
        if opts.get('reconnect_fails'):
            w.connect_script = ['ok', 'fail']
        r = w.run(sc.connect, 'http://h',
                  namespace=opts.get('namespace', '/'))
        if r[0] != 'ok':
            raise common.HarnessError(f'AsyncSimpleClient connect: {r}')
        loop.setup = False
        st = {'arrived': [], 'completed': 0, 'returned': [], 'results': [],
              'final': False, 'timeouts_bad': [], 'pending_at_timer': []}
        gone = asyncio.Event()
        orig_trigger = sc.client._trigger_event

        async def trigger(event, *a, **k):
            if event == '__disconnect_final':
                st['final'] = True     # ended for good from here on
            r = await orig_trigger(event, *a, **k)
            if event == '__disconnect_final':
                gone.set()
            return r
        sc.client._trigger_event = trigger
        w.outbox[:] = []
        loop.on_timer = lambda: st['pending_at_timer'].append(
            st['completed'] - len(st['returned']))

        async def deliver(ev):
            st['arrived'].append(ev)
            await sc.client._handle_eio_message('2%s["%s",1]' % (NSP(opts), ev))
            st['completed'] += 1

        deliver_ref[0] = deliver

        async def producer():
            for step in producer_script:
                await loop.point('arrive:' + step)
                if step == 'loss':
                    eio = w.eio
                    if eio.state == 'connected':
                        await eio._trigger_event(
                            'disconnect', eio.reason.TRANSPORT_ERROR,
                            run_async=False)
                        await eio._reset()
                else:
                    await deliver(step)

        back = asyncio.Event()
        back_ref[0] = back

        async def after_reconnect():
            for ev in opts.get('after_reconnect', []):
                try:
                    await asyncio.wait_for(back.wait(), 100)
                except asyncio.TimeoutError:
                    return
                await loop.point('arrive:' + ev)
                await deliver(ev)

        async def consumer():
            await loop.point('start:consumer')
            for call in consumer_script:
                try:
                    if call[0] == 'receive':
                        r = await sc.receive(timeout=call[1])
                        st['returned'].append(r)
                        st['results'].append(('ok', r))
                    elif call[0] == 'emit':
                        await sc.emit('x', 1)
                        st['results'].append(('emit-ok', w.eio.state,
                                              sc.client.connected))
                    elif call[0] == 'call':
                        await sc.call('x', 1, timeout=5)
                        st['results'].append(('call-ok',))
                    elif call[0] == 'connect-again':
                        try:
                            await sc.connect('http://h')
                            st['results'].append(('connect-again-ok',))
                        except RuntimeError:
                            st['results'].append(('connect-again-refused',))
                    elif call[0] == 'wait-final':
                        await gone.wait()
                        st['results'].append(('final-seen',))
                except Exception as e:
                    if type(e).__name__ == 'TimeoutError':
                        st['timeouts_bad'].append(
                            st['pending_at_timer'][-1]
                            if st['pending_at_timer'] else 0)
                    st['results'].append(('exc', type(e).__name__,
                                          len(sc.input_buffer), st['final'],
                                          st['completed'] -
                                          len(st['returned']),
                                          st['pending_at_timer'][-1]
                                          if st['pending_at_timer'] else 0))
        loop.create_task(consumer())
        loop.create_task(producer())
        if opts.get('after_reconnect'):
            loop.create_task(after_reconnect())

        def finish(hit):
            out = dict(st)
            parked = [lb for lb, f in loop.parked if not f.done()]
            done = len(st['results']) == len(consumer_script)
            out['status'] = 'horizon' if hit else \
                ('done' if done else 'deadlock')
            out['excs'] = loop.collect_errors()
            out['buffer'] = list(sc.input_buffer)
            out['outbox'] = [p.data for p in w.outbox
                             if p.packet_type == eio_packet.MESSAGE]
            out['blocked'] = [('consumer', 'await')] if not done else []
            return out
        return finish
    return scenario


def judge(name, out):
    return [(k.replace('C19/', 'C19/async-'), 'AsyncSimpleClient ' + m)
            for k, m in judge_threads(name, out)]


def job(args):
    name, bound, cap = args
    common.setup_imports()
    viols = []
    outcomes = set()

    def on(choices, out):
        outcomes.add(repr(out['results']))
        for key, msg in judge(name, out):
            if len(viols) < 10:
                viols.append((key, msg, {'replay': {
                    'module': 'mc.checks.c19_async', 'func': 'replay',
                    'args': [name, [c[1] for c in choices]]}}))
    st = e2.explore(scenario_for(name), on, bound=bound, max_execs=cap,
                    horizon=3000)
    return name, st, viols, len(outcomes)


def replay(name, prefix):
    common.setup_imports()
    choices, out = e2.run_one(scenario_for(name), list(prefix), horizon=3000)
    return judge(name, out)


def run(tier, seed, result):
    total = 0
    complete = True
    bound, cap = (None, 20000) if tier == 'quick' else (None, 100000)
    for name, st, viols, n in pmap(job, [(n, bound, cap) for n in SCENARIOS]):
        total += st['executions']
        complete = complete and st['complete']
        result.add('distinct_outcomes', n)
        seen = set()
        for key, msg, wit in viols:
            if key not in seen:
                seen.add(key)
                result.violation(key, msg, wit)
    result.add('schedules', total)
    result.add('states', total)
    result.add('transitions', total)
    return f'AsyncSimpleClient: {total} schedules over {len(SCENARIOS)} ' \
           f'scenarios (deviation bound {bound}, ' \
           f'{"complete within it" if complete else "capped"})'
