"""C09 Client events and acknowledgements: one handler, one ACK, callback
once.  E1 on the client world with an ack ledger; events are probed at every
state."""
import socketio

from .. import common, e1
from ..cworld import ClientWorld
from ..worlds import decode_stream
from ..enum import has_bytes
from ..introspect import callbacks_of, clear_client_partial_packet

NSS = ['/', '/a']
LATE = '/late'          # a namespace the client never connects to
IDS = [None, 0, 1, 7]
RETS = [None, 5, 'txt', [1, 2], {'a': 1}, (1, 'two'), (), b'byt',
        {'n': [b'x']}, (b'1', 2), 0, '', False]
ARGS = [[], [1], ['a', {'k': 2}], [b'bin', 2], [None]]
ACK_ARGS = [[], ['r'], ['r', 2], [b'bin'], [0]]


def shape(ret):
    if ret is None:
        return []
    if isinstance(ret, tuple):
        return list(ret)
    return [ret]


def call_result(args):
    if len(args) == 0:
        return None
    if len(args) == 1:
        return args[0]
    return tuple(args)


class Model:
    def __init__(self, is_async, coro, cap=3, seed=0):
        self.is_async = is_async
        self.coro = coro and is_async
        self.cap = cap
        self.rets = common.rotate(RETS, seed)
        self.args = common.rotate(ARGS, seed)
        self.ack_args = common.rotate(ACK_ARGS, seed)

    def initial(self):
        w = ClientWorld(is_async=self.is_async, reconnection=False)
        w.violations = []
        w.script = {'ret': None}
        c = w.c
        coro = self.coro

        def rec(kind, ns, name, args):
            w.log.append((kind, ns, name, list(args)))
            return w.script['ret']
        if coro:
            async def h(*args):
                return rec('fn', '/', 'h', args)

            async def star(name, *args):
                return rec('catch', '/', name, args)
        else:
            def h(*args):
                return rec('fn', '/', 'h', args)

            def star(name, *args):
                return rec('catch', '/', name, args)
        # a handler that fails with TypeError for one particular payload
        # (sync on the threaded client and on the plain asyncio variant,
        # coroutine on the coroutine variant)
        if coro:
            async def te(*args):
                w.log.append(('te', '/', 'te', list(args)))
                if args and args[0] == 'bad':
                    raise TypeError('scripted TypeError in the handler')
                return 'ok'
        else:
            def te(*args):
                w.log.append(('te', '/', 'te', list(args)))
                if args and args[0] == 'bad':
                    raise TypeError('scripted TypeError in the handler')
                return 'ok'
        c.on('h', h)
        c.on('te', te)
        c.on('*', star)
        base = socketio.AsyncClientNamespace if self.is_async else \
            socketio.ClientNamespace
        if coro:
            class NS(base):
                async def on_h(self, *args):
                    return rec('class', '/a', 'h', args)
        else:
            class NS(base):
                def on_h(self, *args):
                    return rec('class', '/a', 'h', args)
        c.register_namespace(NS('/a'))
        # unrelated function handlers next to the class-based namespace and
        # on the catch-all namespace must not disturb routing or arguments
        c.on('unrelated', h, namespace='/a')
        c.on('unrelated2', h, namespace='*')
        r = w.connect(script=[['0{"sid":"s1"}'], ['0/a,{"sid":"s2"}']],
                      namespaces=list(NSS))
        if r[0] != 'ok':
            raise common.HarnessError(f'client world failed to connect: {r}')
        w.take_outbox()
        w.take_log()
        w.emitted = {ns: 0 for ns in NSS}
        w.out = {ns: {} for ns in NSS + [LATE]}   # id -> callback number
        w.used = {ns: set() for ns in NSS + [LATE]}
        w.refused_emits = 0
        w.fired = {}
        w.ncb = 0
        return w

    def close(self, w):
        w.close()

    def _cap(self, ns):
        return self.cap if ns == '/' else 1

    def _ids(self, w):
        ids = set()
        for ns in NSS:
            ids |= set(w.out[ns]) | w.used[ns]
        return sorted(ids | {0, (max(ids) if ids else 0) + 1})

    def ops(self, w):
        ops = []
        for ns in NSS:
            if w.emitted[ns] < self._cap(ns):
                ops.append(('emitcb', ns))
                ops.append(('call', ns, 'ack', w.emitted[ns] %
                            len(self.ack_args)))
                ops.append(('call', ns, 'silence', 0))
            for i, id in enumerate(self._ids(w)):
                ops.append(('sack', ns, id, i % len(self.ack_args)))
        # an emit with callback on a namespace that is not connected is
        # refused (BadNamespaceError) and must leave nothing behind; ACKs
        # naming that namespace are unknown ACKs
        if w.refused_emits < 1:
            ops.append(('emitcb-unconnected',))
        for i, id in enumerate(self._ids(w)[:3]):
            ops.append(('sack', LATE, id, i % len(self.ack_args)))
        return ops

    def _bad(self, w, key, msg):
        w.violations.append(('C09/' + key, msg))

    def _callback(self, w, k):
        if self.coro:
            async def cb(*args):
                w.fired.setdefault(k, []).append(args)
        else:
            def cb(*args):
                w.fired.setdefault(k, []).append(args)
        return cb

    def _check_emit_frame(self, w, op, ns, payload):
        frames = [f for f in w.take_outbox() if f[0] != 'eio']
        if len(frames) != 1 or frames[0][:3] != ('pkt', 2, ns) or \
                frames[0][4] != payload or not isinstance(frames[0][3], int):
            self._bad(w, 'emit-frame', f'{op}: frames {frames!r}')
            return None
        id = frames[0][3]
        if id in w.out[ns]:
            self._bad(w, 'id-not-unique', f'{op}: id {id} still outstanding '
                      f'on {ns} ({sorted(w.out[ns])})')
        return id

    NOOP_KEY = 'C09/ignored-operation-side-effect'

    def future(self, w):
        """What the next emit-with-callback on each namespace looks like
        and what its acknowledgement does (destructive; throw-away world)."""
        obs = []
        fired = []
        for ns in NSS:
            w.take_outbox()
            r = w.api('emit', 'fq', 1, namespace=ns,
                      callback=lambda *a, ns=ns: fired.append((ns, a)))
            frames = [f for f in w.take_outbox() if f[0] != 'eio']
            ids = [f[3] for f in frames]
            obs.append((r[0], tuple(ids),
                        tuple(i in w.out[ns] for i in ids)))
            for i in ids:
                if isinstance(i, int):
                    w.deliver_packet(3, ns, i, ['fz'])
        for i in (1, 2, 3):
            w.deliver_packet(3, LATE, i, ['fl'])
        obs.append(tuple(fired))
        obs.append(tuple(sorted((k, tuple(v)) for k, v in w.fired.items())))
        w.task_errors.clear()
        return tuple(obs)

    def apply(self, w, op):
        kind = op[0]
        w.expect_noop = False
        if kind == 'emitcb':
            _, ns = op
            w.ncb += 1
            k = w.ncb
            r = w.api('emit', 'q', {'n': k}, namespace=ns,
                      callback=self._callback(w, k))
            if r[0] == 'exc':
                self._bad(w, 'emit-exception', f'{op} raised {r[1:]}')
                return
            w.emitted[ns] += 1
            id = self._check_emit_frame(w, op, ns, ['q', {'n': k}])
            if id is not None:
                w.out[ns][id] = k
        elif kind == 'emitcb-unconnected':
            w.ncb += 1
            k = w.ncb
            w.refused_emits += 1
            r = w.api('emit', 'q', {'n': k}, namespace=LATE,
                      callback=self._callback(w, k))
            frames = [f for f in w.take_outbox() if f[0] != 'eio']
            if r[:2] != ('exc', 'BadNamespaceError') or frames:
                self._bad(w, 'bad-namespace', f'{op}: emit on {LATE} gave '
                          f'{r!r} and sent {frames!r}')
            w.expect_noop = True
        elif kind == 'call':
            _, ns, answer, ai = op
            args = self.ack_args[ai]
            w.emitted[ns] += 1
            got = {}

            def server_answers():
                # runs when call() starts waiting: the server has seen the
                # event and acknowledges it (or stays silent)
                frames = [f for f in w.take_outbox() if f[0] != 'eio']
                got['frames'] = frames
                if answer == 'ack' and len(frames) == 1:
                    w.deliver_packet_raw(3, ns, frames[0][3], args)
            if self.is_async:
                r = self._async_call(w, ns, answer, args, got)
            else:
                w.wait_script = [server_answers]
                r = w.api('call', 'q', 'x', namespace=ns, timeout=5)
                w.wait_script = []
            frames = got.get('frames', [])
            if len(frames) != 1 or frames[0][:3] != ('pkt', 2, ns) or \
                    frames[0][4] != ['q', 'x']:
                self._bad(w, 'call-frame', f'{op}: frames {frames!r}')
                return
            id = frames[0][3]
            if id in w.out[ns]:
                self._bad(w, 'id-not-unique', f'{op}: call() reused id {id}')
            if answer == 'ack':
                want = ('ok', call_result(args))
                w.used[ns].add(id)
                if r[0] != 'ok' or not _teq(r[1], want[1]):
                    self._bad(w, 'call-result', f'{op}: call() gave {r!r}, '
                              f'acknowledged {args!r}')
            else:
                if r[:2] != ('exc', 'TimeoutError'):
                    self._bad(w, 'call-timeout', f'{op}: call() gave {r!r} '
                              'although the server never acknowledged')
                # the abandoned callback stays outstanding (harmless)
                w.out[ns][id] = 0
        elif kind == 'sack':
            _, ns, id, ai = op
            args = self.ack_args[ai]
            before = self.canon(w)
            fired0 = {k: len(v) for k, v in w.fired.items()}
            r = w.deliver_packet(3, ns, id, args)
            new = {k: v[fired0.get(k, 0):] for k, v in w.fired.items()
                   if len(v) > fired0.get(k, 0)}
            what = f'server ACK id={id} args={args!r} on {ns}'
            if any(x[0] == 'exc' for x in r) or w.task_errors:
                self._bad(w, 'ack-exception', f'{what}: {r!r} '
                          f'{w.task_errors!r}')
                w.task_errors.clear()
            if id in w.used[ns]:
                # a repeated ACK: ignored, whatever the id table says now
                if new:
                    self._bad(w, 'repeated-ack-fired', f'{what}: id {id} '
                              f'was acknowledged before on {ns}, yet fired '
                              f'{new!r}')
                w.expect_noop = True
                if id not in w.out[ns] and self.canon(w) != before:
                    self._bad(w, 'ack-side-effect', f'{what}: repeated ACK '
                              f'changed the state')
            elif id in w.out[ns]:
                k = w.out[ns].pop(id)
                w.used[ns].add(id)
                if k and new != {k: [tuple(args)]}:
                    self._bad(w, 'callback', f'{what}: expected callback '
                              f'#{k}{tuple(args)!r} once, got {new!r}')
                if not k and new:
                    self._bad(w, 'spurious-callback', f'{what}: {new!r}')
            else:
                if new:
                    self._bad(w, 'spurious-callback', f'{what}: nothing '
                              f'outstanding under that id on {ns}, yet '
                              f'fired {new!r}')
                after = self.canon(w)
                w.expect_noop = True
                if after != before:
                    self._bad(w, 'ack-side-effect', f'{what}: unknown id '
                              f'changed the state {before!r} -> {after!r}')
            fr = [f for f in w.take_outbox() if f[0] != 'eio']
            if fr:
                self._bad(w, 'ack-answered', f'{what}: client sent {fr!r}')
        w.take_outbox()
        w.take_log()

    def _async_call(self, w, ns, answer, args, got):
        loop = w.loop

        async def server():
            await loop.point('server-sees-event')
            frames = [f for f in w.take_outbox() if f[0] != 'eio']
            got['frames'] = frames
            if answer == 'ack' and len(frames) == 1:
                from engineio import packet as eio_packet
                for f in w.encode(3, ns, frames[0][3], args):
                    await w.eio._receive_packet(
                        eio_packet.Packet(eio_packet.MESSAGE, f))
        loop.create_task(server())
        return w.api('call', 'q', 'x', namespace=ns, timeout=5)

    def canon(self, w):
        c = w.c
        return (tuple((ns, w.emitted[ns], tuple(sorted(w.out[ns])),
                       tuple(sorted(repr(k) for k in
                                    callbacks_of(c).get(ns, {}))))
                      for ns in NSS),
                c.connected, tuple(sorted(c.namespaces)), w.refused_emits)

    # -- probes: every server event -----------------------------------------
    def probe(self, w):
        k = 0
        n = 0
        for ns in NSS:
            for name in ('h', 'zz'):
                for id in IDS:
                    for ri, ret in enumerate(self.rets):
                        if id is None and ri >= 3:
                            continue
                        args = self.args[k % len(self.args)]
                        k += 1
                        self._one_event(w, ns, name, id, args, ret)
                        n += 1
        # a handler that raises TypeError is invoked once, with all the
        # arguments, and its event is not acknowledged with a made-up value
        for args, want_ack in ((['fine', 2], [('pkt', 3, '/', 7, ['ok'])]),
                               (['bad', 2], [])):
            w.deliver_packet(2, '/', 7, ['te'] + args)
            log = w.take_log()
            frames = [f for f in w.take_outbox() if f[0] != 'eio']
            w.task_errors.clear()
            if w.loop is not None:
                w.loop.collect_errors()
            if log != [('te', '/', 'te', args)] or frames != want_ack:
                self._bad(w, 'handler-fault', f'event te{args!r} id=7: '
                          f'handler log {log!r}, client sent {frames!r} '
                          f'(expected one invocation and {want_ack!r})')
        # a BINARY_EVENT that announces zero attachments is complete as it
        # stands (the reference parser dispatches it at once)
        w.script['ret'] = 'z'
        w.deliver('50-3["h",1]')
        log = w.take_log()
        frames = [f for f in w.take_outbox() if f[0] != 'eio']
        if log != [('fn', '/', 'h', [1])] or \
                frames != [('pkt', 3, '/', 3, ['z'])]:
            self._bad(w, 'zero-attachments', f'BINARY_EVENT with 0 '
                      f'attachments: handler log {log!r}, client sent '
                      f'{frames!r}')
            clear_client_partial_packet(w.c)
        w.obs_key = n
        # ledger vs client table
        for ns in NSS:
            real = sorted(callbacks_of(w.c).get(ns, {}))
            if real != sorted(w.out[ns]):
                self._bad(w, 'ledger', f'{ns}: client has outstanding '
                          f'{real}, ledger {sorted(w.out[ns])}')
        for kk, calls in w.fired.items():
            if len(calls) > 1:
                self._bad(w, 'fired-twice', f'callback #{kk} fired '
                          f'{len(calls)} times')

    def _one_event(self, w, ns, name, id, args, ret):
        w.script['ret'] = ret
        what = f'server event {name}{args!r} id={id} ret={ret!r} on {ns}'
        r = w.deliver_packet(2, ns, id, [name] + list(args))
        if any(x[0] == 'exc' for x in r) or w.task_errors:
            self._bad(w, 'event-exception', f'{what}: {r!r} '
                      f'{w.task_errors!r}')
            w.task_errors.clear()
        log = w.take_log()
        if ns == '/':
            exp = [('fn', '/', 'h', list(args))] if name == 'h' else \
                [('catch', '/', name, list(args))]
            handled = True
        else:
            exp = [('class', '/a', 'h', list(args))] if name == 'h' else []
            handled = name == 'h'
        if log != exp:
            self._bad(w, 'handler', f'{what}: handler log {log!r}, expected '
                      f'{exp!r}')
        frames = [f for f in w.take_outbox() if f[0] != 'eio']
        expf = []
        if id is not None:
            data = shape(ret) if handled else []
            expf = [('pkt', 6 if has_bytes(data) else 3, ns, id, data)]
        if frames != expf:
            self._bad(w, 'ack', f'{what}: client sent {frames!r}, expected '
                      f'{expf!r}')


def call_in_handler(result):
    """The handler of a (text / binary) event with an id itself uses
    call(); the server's ACK for that call arrives while the handler is
    still running (engine.io hands every message to its own task/thread).
    The call must return the acknowledged value and the event must be
    acknowledged with the handler's result."""
    n = 0
    for is_async in (False, True):
        for binary in (False, True):
            n += 1
            w = ClientWorld(is_async=is_async, reconnection=False)
            c = w.c
            seen = []
            if is_async:
                async def h(arg):
                    r = await c.call('q', 1, timeout=5)
                    seen.append((arg, r))
                    return r
            else:
                def h(arg):
                    r = c.call('q', 1, timeout=5)
                    seen.append((arg, r))
                    return r
            c.on('h', h)
            try:
                r = w.connect(script=[['0{"sid":"s1"}']], namespaces=['/'])
                if r[0] != 'ok':
                    raise common.HarnessError(f'connect failed: {r}')
                w.take_outbox()
                arg = b'x' if binary else 'x'

                def ack_frame():
                    ev = [f for f in decode_stream(list(w.outbox))
                          if f[0] == 'pkt' and f[1] == 2]
                    return '3%d["pong"]' % ev[-1][3] if ev else None
                frames = w.encode(2, '/', 4, ['h', arg])
                for f in frames[:-1]:
                    w.deliver(f)
                if is_async:
                    loop = w.loop

                    async def server():
                        from engineio import packet as eio_packet
                        for _ in range(20):
                            await loop.point('server-polls')
                            f = ack_frame()
                            if f:
                                await w.eio._receive_packet(
                                    eio_packet.Packet(eio_packet.MESSAGE, f))
                                return
                    loop.create_task(server())
                else:
                    w.wait_script = [lambda: (ack_frame() and
                                              w.deliver_raw(ack_frame()))]
                w.deliver(frames[-1])
                out = [f for f in w.take_outbox() if f[0] == 'pkt']
                want = [('pkt', 2, '/', 1, ['q', 1]),
                        ('pkt', 3, '/', 4, ['pong'])]
                if seen != [(arg, 'pong')] or out != want:
                    result.violation(
                        'C09/call-in-handler',
                        f'{"Async" if is_async else ""}Client, handler of a '
                        f'{"binary" if binary else "text"} event uses '
                        f'call(): handler saw {seen!r}, client sent {out!r} '
                        f'(expected {want!r}), errors {w.task_errors!r}',
                        {'rerun': {'module': 'mc.checks.c09',
                                   'func': 'rerun_call_in_handler'}})
            finally:
                w.close()
    return n


def rerun_call_in_handler(result):
    common.setup_imports()
    call_in_handler(result)


def _teq(a, b):
    from ..refcodec import typed_equal
    return typed_equal(a, b)


def factory(**params):
    return Model(**params)


e1.register('c09', factory)


def run(tier, seed, result):
    notes = []
    closure = True
    cap = 3 if tier == 'quick' else 4
    for is_async, coro in ((False, False), (True, False), (True, True)):
        params = dict(is_async=is_async, coro=coro, cap=cap, seed=seed)
        st = e1.explore('c09', params, result, max_depth=40)
        closure = closure and st['closure']
        notes.append(f'async={is_async} coro={coro}: {st}')
    from . import c09_sched
    notes.append(c09_sched.run(tier, seed, result))
    from . import c06_ack_threads
    notes.append(c06_ack_threads.run(tier, seed, result, 'client'))
    n = call_in_handler(result)
    result.add('call_in_handler_scenarios', n)
    notes.append(f'call() inside a handler (text/binary event, both '
                 f'clients): {n} scenarios')
    result.assumptions += [
        f'at most {cap} emits-with-callback/call() on "/" and 1 on "/a" per '
        'connection (bounds the id counters)',
        'threaded client: engine.io starts one task per incoming message; '
        'the world runs each to completion in arrival order',
    ]
    return dict(
        rule='BFS to closure over client emit-with-callback / call() '
             '(answered or not) / server ACK with ids drawn from all '
             'outstanding or used ids of both namespaces + {0, max+1}; at '
             'every state every server event (2 namespaces x handled/'
             'unhandled x ids {None,0,1,7} x 13 return shapes, text and '
             'binary arguments) is delivered and handler log + ACK frame '
             'compared with the ledger',
        explanation=' | '.join(notes),
        exhaustive=closure)
