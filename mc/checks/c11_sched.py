"""C11 part 2 (E2): the end of a client racing its own traffic on AsyncServer.

One transport.  The client's packets are taken up in arrival order by
separate request tasks (long-polling POSTs); connect and disconnect handlers
are suspended at entry, every transport write is a suspension point, and the
server-side disconnect() and the loss of the transport are concurrent
actors.  Every interleaving is executed.  When everything has settled the
transport is ended (if it has not been) and the server must equal a fresh
one: exceptions are not this property's business, residue is.
"""
from .. import common, e2
from ..worlds import ServerWorld, eio_packet
from ..par import pmap
from . import c11

# (name, initially connected to '/', client frames, actors)
SCENARIOS = [
    ('connect-vs-loss', False, ['0'], ['loss']),
    ('sdisc-vs-reconnect', True, ['0'], ['sdisc']),
    ('cdisc-reconnect', True, ['1', '0'], []),
    ('cdisc-reconnect-vs-loss', True, ['1', '0'], ['loss']),
    ('sdisc-vs-reconnect-vs-loss', True, ['0'], ['sdisc', 'loss']),
    ('connect-two-ns-vs-loss', False, ['0', '0/x,'], ['loss']),
    ('event-cb-vs-loss', True, ['21["ev",1]', '1'], ['loss']),
    # the task that tears the transport down is cancelled (server shutdown,
    # request task cancelled by the web server) while a disconnect handler
    # is suspended; the client is on two namespaces
    ('two-ns-loss-cancelled', True, [], ['loss', 'cancel-loss']),
    # the application emits to the client with a callback while its
    # transport is being lost
    ('emitcb-vs-loss', True, [], ['emitcb', 'loss']),
    # a binary event is half received when the transport is lost
    ('binary-header-vs-loss', True,
     ['51-["ev",{"_placeholder":true,"num":0}]'], ['loss']),
]
OUTCOMES = ['accept', 'false']
INDEPENDENT = {'manager.pending_disconnect', 'manager.callbacks',
               'server.environ', 'server._binary_packet'}


def scenario_for(sc, always_connect, outcome, suspend_sends,
                 bystander=False):
    name, connected0, frames, actors = sc

    def scenario(loop):
        loop.setup = True
        w = ServerWorld(is_async=True, loop=loop, namespaces=['/', '/x'],
                        always_connect=always_connect)
        sio = w.sio
        state = {'outcome': 'accept'}

        async def ch(sid, environ):
            await loop.point('ch')
            return None if state['outcome'] == 'accept' else False

        async def dh(sid, reason):
            await loop.point('dh')

        async def ev(sid, arg):
            await loop.point('eh')
            return 'r'
        for ns in ('/', '/x'):
            sio.on('connect', ch, namespace=ns)
            sio.on('disconnect', dh, namespace=ns)
            sio.on('ev', ev, namespace=ns)
        if bystander:
            # another client stays connected to '/' throughout: "fresh"
            # then means "as if only the bystander had ever been there"
            tb = w.new_transport()
            w.recv_packet(tb, 0, '/')
            w.drain_all()
        fresh = c11.generic_snapshot(w)
        t = w.new_transport()
        sock = w.transports[t]
        sid0 = None
        if connected0:
            w.recv_packet(t, 0, '/')
            sid0 = w.sid_of(t, '/')
            w.run(sio.emit, 'q', 1, to=sid0, callback=lambda *a: None)
            if name.startswith('two-ns'):
                w.recv_packet(t, 0, '/x')
                w.run(sio.emit, 'q', 2, to=w.sid_of(t, '/x'),
                      namespace='/x', callback=lambda *a: None)
        w.drain_all()
        state['outcome'] = outcome
        if suspend_sends:
            real_send = sock.send

            async def send(pkt):
                await real_send(pkt)
                await loop.point('send')
            sock.send = send
        loop.setup = False
        if name == 'emitcb-vs-loss':
            # the emit and the loss may become runnable in the same
            # selector round
            loop.multi_budget = 1
        lost = {'v': False, 'connect_while_closing': False}

        async def receive(f):
            try:
                if sock.closing and not sock.closed and \
                        isinstance(f, str) and f.startswith('0'):
                    lost['connect_while_closing'] = True
                if not sock.closed:
                    await sock.receive(
                        eio_packet.Packet(eio_packet.MESSAGE, f))
            except Exception:
                pass          # surfaces in the request, not in the server

        async def stream():
            for f in frames:
                await loop.point('arrive')
                loop.create_task(receive(f))

        tasks = {}

        async def actor(kind):
            await loop.point('start:' + kind)
            try:
                if kind == 'emitcb':
                    await sio.emit('q', 3, to=sid0,
                                   callback=lambda *a: None)
                elif kind == 'cancel-loss':
                    tasks['loss'].cancel()
                elif kind == 'loss':
                    lost['v'] = True
                    await sock.close(wait=False, abort=True,
                                     reason='transport close')
                    w.eio.sockets.pop(sock.sid, None)
                elif kind == 'sdisc':
                    await sio.disconnect(sid0)
            except Exception:
                pass
        loop.create_task(stream())
        for a in actors:
            tasks[a] = loop.create_task(actor(a))

        def finish(hit):
            parked = [lb for lb, f in loop.parked if not f.done()]
            loop.collect_errors()
            if hit or parked:
                return {'stuck': True, 'parked': parked}
            loop.setup = True
            if not lost['v']:
                w.lose(t)
            loop.collect_errors()
            snap = c11.generic_snapshot(w)
            diff = {k: snap.get(k) for k in set(snap) | set(fresh)
                    if snap.get(k) != fresh.get(k)}
            if bystander:
                diff = {k: (v, fresh.get(k)) for k, v in diff.items()}
            return {'stuck': False, 'diff': diff,
                    'connect_while_closing': lost['connect_while_closing'],
                    'namespaces': [] if bystander else
                    list(sio.manager.get_namespaces())}
        return finish
    return scenario


def judge(sc, always_connect, outcome, out):
    what = f'{sc[0]} (always_connect={always_connect}, handler={outcome})'
    if any(isinstance(v, tuple) for v in out.get('diff', {}).values()):
        what += ' with a bystander connected'
    if out.get('stuck'):
        return [('C11/sched-stuck', f'{what}: {out}')]
    v = []
    # cause classifier: a CONNECT taken up while engine.io was already
    # closing the transport (disconnect handlers still running).  The key
    # names the cause, not the table the ghost shows up in (a refactoring
    # may mirror or rename tables)
    diff = dict(out['diff'])
    if out['connect_while_closing']:
        # the ghost registration of the known finding; marks, callbacks,
        # environ and partial packets are not part of it and keep their own
        # keys
        ghost = {k: x for k, x in diff.items() if k not in INDEPENDENT}
        if ghost or out['namespaces']:
            v.append(('C11/sched-not-fresh/connect-while-transport-closing',
                      f'{what}: the only client is gone but '
                      f'{dict(sorted(ghost.items()))!r}; get_namespaces() '
                      f'= {out["namespaces"]!r}'))
        diff = {k: x for k, x in diff.items() if k in INDEPENDENT}
        out = dict(out, namespaces=[])
    for k, val in sorted(diff.items()):
        v.append(('C11/sched-not-fresh/' + k.split('.')[1],
                  f'{what}: the only client is gone but {k} = {val!r}'))
    if out['namespaces']:
        v.append(('C11/sched-not-fresh/namespaces', f'{what}: '
                  f'get_namespaces() = {out["namespaces"]!r}'))
    return v


def job(args):
    si, ac, outcome, ss, by = args
    common.setup_imports()
    sc = SCENARIOS[si]
    viols = []
    outs = set()

    def on(choices, out):
        outs.add(repr(out))
        for key, msg in judge(sc, ac, outcome, out):
            if len(viols) < 3:
                viols.append((key, msg, {'replay': {
                    'module': 'mc.checks.c11_sched', 'func': 'replay',
                    'args': [si, ac, outcome, ss, by,
                             [c[1] for c in choices]]}}))
    st = e2.explore(scenario_for(sc, ac, outcome, ss, by), on)
    return st, viols, len(outs)


def replay(si, ac, outcome, ss, by, prefix):
    common.setup_imports()
    sc = SCENARIOS[si]
    choices, out = e2.run_one(scenario_for(sc, ac, outcome, ss, by),
                              list(prefix))
    return judge(sc, ac, outcome, out)


def run(tier, seed, result):
    jobs = [(si, ac, outcome, ss, by) for si in range(len(SCENARIOS))
            for ac in (False, True) for outcome in OUTCOMES
            for ss in (True, False) for by in (False, True)]
    total = 0
    outcomes = 0
    for st, viols, n in pmap(job, jobs):
        total += st['executions']
        outcomes += n
        if not st['complete']:
            raise common.HarnessError('C11 schedule exploration capped')
        for key, msg, wit in viols:
            result.violation(key, msg, wit)
    result.add('schedules', total)
    result.add('sched_distinct_outcomes', outcomes)
    return f'E2: client traffic racing disconnect()/transport loss on ' \
           f'AsyncServer, {len(jobs)} scenarios, {total} schedules (all ' \
           f'interleavings at handler entry and transport writes)'
