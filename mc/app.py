"""Standard application handlers installed on a ServerWorld.

The application is scripted through w.script:
    w.script['connect'] -> outcome for the next connect handler invocation
    w.script['returns'] -> dict event-name -> return value
    w.script['raise']   -> set of invocation ordinals that must raise
Every invocation is appended to w.log as a tuple.
"""
import socketio

OUTCOMES = ['accept', 'false', 'cre0', 'cre1', 'cre2', 'cre3']
# 'j' + outcome: the connect handler first puts the new sid into JOIN_ROOM
JOIN_OUTCOMES = ['jaccept', 'jfalse', 'jcre2']
JOIN_ROOM = 'lobby'


class AppError(Exception):
    """Raised by scripted handlers (fault injection)."""


def refusal_payload(outcome):
    """Documented refusal payload (reference model 4.3)."""
    if outcome.startswith('j'):
        outcome = outcome[1:]
    if outcome in ('false', 'cre0'):
        return {'message': 'Connection rejected by server'}
    if outcome == 'cre1':
        return {'message': 'm'}
    if outcome == 'cre2':
        return {'message': 'm', 'data': 'd'}
    if outcome == 'cre3':
        return {'message': 'm', 'data': ['d1', 'd2']}
    raise ValueError(outcome)


def _connect_outcome(w):
    o = w.script.get('connect', 'accept')
    if o.startswith('j'):
        o = o[1:]
    if o == 'accept':
        return None
    if o == 'false':
        return False
    CRE = socketio.exceptions.ConnectionRefusedError
    if o == 'cre0':
        raise CRE()
    if o == 'cre1':
        raise CRE('m')
    if o == 'cre2':
        raise CRE('m', 'd')
    if o == 'cre3':
        raise CRE('m', 'd1', 'd2')
    if o == 'boom':
        # the connect handler fails with something that is not a refusal
        raise AppError('scripted fault in the connect handler')
    if o == 'creb':
        # refusal data that the refusal packet cannot carry (bytes): the
        # application's mistake, but the server must not keep the client
        raise CRE('m', b'blob')
    raise ValueError(o)


def _tick(w, what):
    """Fault injection: raise AppError at scripted invocation ordinals."""
    w.invocations = getattr(w, 'invocations', 0) + 1
    if w.invocations in w.script.get('raise', ()):
        w.log.append(('raised', what, w.invocations))
        raise AppError('scripted fault in %s' % what)


def install(w, kind, nss, events=('ev', 'ret')):
    """kind: 'func' (function handlers per namespace), 'class' (class-based
    namespace per namespace), 'star' (function handlers on the catch-all
    namespace)."""
    w.script = getattr(w, 'script', {})
    sio = w.sio
    is_async = w.is_async

    def on_connect(ns, sid, environ, auth):
        w.log.append(('connect', ns, sid, auth,
                      environ.get('t') if isinstance(environ, dict) else None))
        _tick(w, 'connect')
        return w.script.get('connect', 'accept').startswith('j')

    def on_disconnect(ns, sid, reason):
        w.log.append(('disconnect', ns, sid, reason))
        _tick(w, 'disconnect')

    def on_event(ns, name, sid, args):
        w.log.append(('event', ns, name, sid, args))
        _tick(w, 'event')
        return w.script.get('returns', {}).get(name)

    if kind == 'func':
        for ns in nss:
            def mk(ns):
                if is_async:
                    async def c(sid, environ, auth):
                        if on_connect(ns, sid, environ, auth):
                            await sio.enter_room(sid, JOIN_ROOM, namespace=ns)
                        return _connect_outcome(w)

                    async def d(sid, reason):
                        return on_disconnect(ns, sid, reason)
                else:
                    def c(sid, environ, auth):
                        if on_connect(ns, sid, environ, auth):
                            sio.enter_room(sid, JOIN_ROOM, namespace=ns)
                        return _connect_outcome(w)

                    def d(sid, reason):
                        return on_disconnect(ns, sid, reason)
                sio.on('connect', c, namespace=ns)
                sio.on('disconnect', d, namespace=ns)
                for ev in events:
                    def mke(ev):
                        if is_async:
                            async def h(sid, *args):
                                return on_event(ns, ev, sid, args)
                        else:
                            def h(sid, *args):
                                return on_event(ns, ev, sid, args)
                        return h
                    sio.on(ev, mke(ev), namespace=ns)
            mk(ns)
    elif kind == 'star':
        if is_async:
            async def c(ns, sid, environ, auth):
                if on_connect(ns, sid, environ, auth):
                    await sio.enter_room(sid, JOIN_ROOM, namespace=ns)
                return _connect_outcome(w)

            async def d(ns, sid, reason):
                return on_disconnect(ns, sid, reason)
        else:
            def c(ns, sid, environ, auth):
                if on_connect(ns, sid, environ, auth):
                    sio.enter_room(sid, JOIN_ROOM, namespace=ns)
                return _connect_outcome(w)

            def d(ns, sid, reason):
                return on_disconnect(ns, sid, reason)
        sio.on('connect', c, namespace='*')
        sio.on('disconnect', d, namespace='*')
        for ev in events:
            def mke(ev):
                if is_async:
                    async def h(ns, sid, *args):
                        return on_event(ns, ev, sid, args)
                else:
                    def h(ns, sid, *args):
                        return on_event(ns, ev, sid, args)
                return h
            sio.on(ev, mke(ev), namespace='*')
    elif kind == 'class':
        base = socketio.AsyncNamespace if is_async else socketio.Namespace
        for ns in nss:
            def mkc(ns):
                if is_async:
                    class NS(base):
                        async def on_connect(self, sid, environ, auth=None):
                            if on_connect(ns, sid, environ, auth):
                                await self.enter_room(sid, JOIN_ROOM)
                            return _connect_outcome(w)

                        async def on_disconnect(self, sid, reason):
                            return on_disconnect(ns, sid, reason)
                else:
                    class NS(base):
                        def on_connect(self, sid, environ, auth=None):
                            if on_connect(ns, sid, environ, auth):
                                self.enter_room(sid, JOIN_ROOM)
                            return _connect_outcome(w)

                        def on_disconnect(self, sid, reason):
                            return on_disconnect(ns, sid, reason)
                for ev in events:
                    def mke(ev):
                        if is_async:
                            async def h(self, sid, *args):
                                return on_event(ns, ev, sid, args)
                        else:
                            def h(self, sid, *args):
                                return on_event(ns, ev, sid, args)
                        return h
                    setattr(NS, 'on_' + ev, mke(ev))
                return NS(ns)
            sio.register_namespace(mkc(ns))
    else:
        raise ValueError(kind)
