"""Client world (DESIGN.md 2.2): real socketio.Client / AsyncClient on top of
a subclass of the real engineio client with only the transport cut."""
import asyncio

from . import common
from .vloop import VLoop, install
from .worlds import DeferredTask, decode_stream

socketio = common.setup_imports()

import engineio                                   # noqa: E402
from engineio import packet as eio_packet         # noqa: E402
from engineio import base_client as eio_base_client   # noqa: E402


class SeqEvent:
    """Event for sequential worlds: a wait on an unset event lets the
    environment act (world.on_wait) and then reports the flag; with nothing
    left to happen the wait 'times out' at once."""

    def __init__(self, world):
        self.world = world
        self.flag = False
        self.timeouts = []

    def set(self):
        self.flag = True

    def clear(self):
        self.flag = False

    def is_set(self):
        return self.flag

    def wait(self, timeout=None):
        self.timeouts.append(timeout)
        if not self.flag:
            self.world.on_wait(self, timeout)
        return self.flag


class _Dummy:
    def join(self, timeout=None):
        pass

    def __await__(self):
        if False:
            yield
        return None


def make_eio_class(world, is_async):
    base = engineio.AsyncClient if is_async else engineio.Client

    def _begin(self, url, headers, transports, engineio_path):
        w = world
        w.eio = self          # the client instance now in use
        w.connect_calls.append({'url': url, 'headers': headers,
                                'transports': transports,
                                'path': engineio_path})
        if self.state != 'disconnected':
            raise ValueError('Client is not in a disconnected state')
        self.transports = transports or ['polling', 'websocket']
        outcome = w.connect_script.pop(0) if w.connect_script else 'ok'
        if outcome != 'ok':
            return outcome
        w.eio_count += 1
        self.sid = 'E%d' % w.eio_count
        self.current_transport = 'polling'
        self.upgrades = []
        self.state = 'connected'
        eio_base_client.connected_clients.append(self)
        self.read_loop_task = _Dummy()
        self.write_loop_task = _Dummy()
        return 'ok'

    def _failure(outcome):
        if outcome == 'fail':
            return engineio.exceptions.ConnectionError(
                'Connection refused by the server')
        return engineio.exceptions.ConnectionError(
            'Unexpected status code 401 in server response',
            {'why': 'denied'})

    if is_async:
        class Eio(base):
            async def connect(self, url, headers=None, transports=None,
                              engineio_path='engine.io'):
                o = _begin(self, url, headers, transports, engineio_path)
                if o != 'ok':
                    await self._reset()
                    raise _failure(o)
                try:
                    await self._trigger_event('connect', run_async=False)
                except Exception as exc:
                    eio_base_client.connected_clients.remove(self)
                    await self._reset()
                    raise engineio.exceptions.ConnectionError(
                        'Connect handler failed: ' + str(exc))

            async def _send_packet(self, pkt):
                if self.state != 'connected':
                    return
                world.outbox.append(pkt)
                if world.send_hook:
                    await world.send_hook(pkt)
    else:
        class Eio(base):
            def connect(self, url, headers=None, transports=None,
                        engineio_path='engine.io'):
                o = _begin(self, url, headers, transports, engineio_path)
                if o != 'ok':
                    self._reset()
                    raise _failure(o)
                try:
                    self._trigger_event('connect', run_async=False)
                except Exception as exc:
                    eio_base_client.connected_clients.remove(self)
                    self._reset()
                    raise engineio.exceptions.ConnectionError(
                        'Connect handler failed: ' + str(exc))

            def _send_packet(self, pkt):
                if self.state != 'connected':
                    return
                world.outbox.append(pkt)
                if world.send_hook:
                    world.send_hook(pkt)

            def start_background_task(self, target, *args, **kwargs):
                return world.start_task(target, *args, **kwargs)

            def sleep(self, seconds=0):
                world.sleeps.append(seconds)

            def create_event(self, *args, **kwargs):
                return world.event_factory()
    return Eio


class ClientWorld:
    def __init__(self, is_async=False, loop=None, serializer='default',
                 client_class=None, event_factory=None, task_factory=None,
                 instantiate=True, **kwargs):
        self.is_async = is_async
        self.serializer = serializer
        self.connect_calls = []
        self.connect_script = []
        self.eio_count = 0
        self.outbox = []
        self.log = []
        self.tasks = []
        self.task_errors = []
        self.sleeps = []
        self.send_hook = None
        self.wait_script = []     # callables run (one per wait) by on_wait
        self.event_factory = event_factory or (lambda: SeqEvent(self))
        self.task_factory = task_factory
        eio_cls = make_eio_class(self, is_async)
        if client_class is None:
            client_class = socketio.AsyncClient if is_async else \
                socketio.Client
        world = self

        class C(client_class):
            def _engineio_client_class(self):
                return eio_cls
        kwargs.setdefault('handle_sigint', False)
        if is_async:
            self.loop = loop or VLoop()
            install(self.loop)
        else:
            self.loop = None
        self.C = C
        self.client_kwargs = dict(kwargs, serializer=serializer)
        if instantiate:
            self.c = C(**self.client_kwargs)
            self.eio = self.c.eio
        else:
            self.c = None
            self.eio = None

    # -- tasks (threaded client, sequential) --------------------------------
    def start_task(self, target, *args, **kwargs):
        if self.task_factory:
            return self.task_factory(target, *args, **kwargs)
        t = DeferredTask(self, target, args, kwargs)
        self.tasks.append(t)
        return t

    def run_tasks(self):
        n = 0
        while self.tasks:
            self.tasks.pop(0).run()
            n += 1
            if n > 1000:
                raise common.HarnessError('client task storm')

    def on_wait(self, ev, timeout):
        """A thread of the client waits on an unset event: let the scripted
        environment act (one step per wait) and run message tasks."""
        if self.wait_script:
            step = self.wait_script.pop(0)
            step()
            self.run_tasks()

    # -- running operations --------------------------------------------------
    def run(self, fn, *args, **kwargs):
        try:
            if self.is_async:
                r = fn(*args, **kwargs)
                if asyncio.iscoroutine(r):
                    r = self.loop.run_value(r)
                else:
                    self.loop.run()
            else:
                r = fn(*args, **kwargs)
                self.run_tasks()
            return ('ok', r)
        except (common.HarnessError, KeyboardInterrupt):
            raise
        except Exception as e:
            if not self.is_async:
                self.run_tasks()
            return ('exc', type(e).__name__, str(e))

    def api(self, name, *args, **kwargs):
        return self.run(getattr(self.c, name), *args, **kwargs)

    def connect(self, script=(), **kwargs):
        """client.connect() while the server answers with `script`: a list
        of frames lists delivered one item per wait step (sync) / per
        quiescence (async)."""
        kwargs.setdefault('wait_timeout', 1)
        url = kwargs.pop('url', 'http://h')
        if self.is_async:
            loop = self.loop

            async def server():
                for frames in script:
                    await loop.point('server-answer')
                    for f in frames:
                        await self.eio._receive_packet(
                            eio_packet.Packet(eio_packet.MESSAGE, f))
            if script:
                loop.create_task(server())
            return self.run(self.c.connect, url, **kwargs)
        self.wait_script = [
            (lambda frames=frames: [self.deliver_raw(f) for f in frames])
            for frames in script]
        r = self.run(self.c.connect, url, **kwargs)
        self.wait_script = []
        return r

    def deliver_raw(self, frame):
        r = self.eio._receive_packet(
            eio_packet.Packet(eio_packet.MESSAGE, frame))
        return r

    def deliver(self, frame):
        """One engine.io MESSAGE from the server (str or bytes)."""
        if self.eio.state != 'connected':
            return ('closed',)
        return self.run(self.eio._receive_packet,
                        eio_packet.Packet(eio_packet.MESSAGE, frame))

    def encode(self, ptype, nsp=None, id=None, data=None):
        from . import refcodec
        if self.serializer == 'msgpack':
            import msgpack
            d = {'type': ptype, 'data': data, 'nsp': nsp or '/'}
            if id is not None:
                d['id'] = id
            return [msgpack.dumps(d)]
        _, frame, atts = refcodec.ref_frame(ptype, nsp, id, data)
        return [frame] + atts

    def deliver_packet(self, ptype, nsp=None, id=None, data=None):
        return [self.deliver(f) for f in self.encode(ptype, nsp, id, data)]

    def deliver_packet_raw(self, ptype, nsp=None, id=None, data=None):
        """For use inside a wait hook (threaded client, sequential)."""
        for f in self.encode(ptype, nsp, id, data):
            self.deliver_raw(f)

    def lose(self):
        """Transport error: the real read-loop epilogue."""
        eio = self.eio

        def epilogue():
            if eio.state == 'connected':
                eio._trigger_event('disconnect', eio.reason.TRANSPORT_ERROR,
                                   run_async=False)
                try:
                    eio_base_client.connected_clients.remove(eio)
                except ValueError:
                    pass
                eio._reset()

        async def aepilogue():
            if eio.state == 'connected':
                await eio._trigger_event('disconnect',
                                         eio.reason.TRANSPORT_ERROR,
                                         run_async=False)
                try:
                    eio_base_client.connected_clients.remove(eio)
                except ValueError:
                    pass
                await eio._reset()
        return self.run(aepilogue if self.is_async else epilogue)

    def server_close(self):
        """The server sends an engine.io CLOSE packet."""
        if self.eio.state != 'connected':
            return ('closed',)
        return self.run(self.eio._receive_packet,
                        eio_packet.Packet(eio_packet.CLOSE))

    def take_outbox(self):
        out, self.outbox = self.outbox, []
        return decode_stream(out, self.serializer)

    def take_log(self):
        lg = list(self.log)
        del self.log[:]
        return lg

    def close(self):
        del eio_base_client.connected_clients[:]
        from socketio import base_client as sio_base_client
        del sio_base_client.reconnecting_clients[:]
        if self.loop is not None:
            try:
                for t in asyncio.all_tasks(self.loop):
                    t.cancel()
                self.loop.run()
            except Exception:
                pass
            self.loop.close()
            asyncio.set_event_loop(None)
