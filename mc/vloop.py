"""Virtual asyncio loop (E2).

A BaseEventLoop with virtual time and no selector.  The ready queue stays
FIFO (the code under test relies on it); the only nondeterminism is decided
at *quiescence*, i.e. when the loop calls select(): the chooser may resolve a
parked I/O point, start a pending external arrival, or let the earliest timer
fire.  In sequential worlds the default chooser fires timers in order and
treats "nothing to do" as the end of the run.
"""
import asyncio
import gc
from asyncio import events


class Quiescent(Exception):
    """Raised out of run_forever when nothing is left to do."""


class _Selector:
    def __init__(self, loop):
        self.loop = loop

    def select(self, timeout=None):
        if timeout is not None and timeout <= 0:
            return []
        self.loop._at_quiescence(timeout)
        return []

    def close(self):
        pass


class VLoop(asyncio.BaseEventLoop):
    def __init__(self, chooser=None, horizon=200000):
        super().__init__()
        self._vtime = 0.0
        self._selector = _Selector(self)
        self.chooser = chooser        # callable(loop, options) -> index
        self.parked = []              # list of (label, future)
        self.steps = 0
        self.horizon = horizon
        self.errors = []              # from the loop exception handler
        self.set_exception_handler(self._on_error)
        self.choices = []             # recorded (n_options, chosen, labels)
        self._stop_when = None
        self.timer_fired = 0
        self.setup = False            # True: deterministic, unrecorded
        self.on_timer = None          # callable() when a timer is fired
        self.time_limit = None        # timers beyond this are not fired
        # two I/O completions in one selector round: after resolving a
        # parked point the chooser may resolve a second one in the same
        # loop iteration (its task is queued right behind the first one,
        # *before* anything the first one spawns).  Budget per execution.
        self.multi_budget = 0

    # -- BaseEventLoop plumbing -------------------------------------------
    def time(self):
        return self._vtime

    def _process_events(self, event_list):
        pass

    def _write_to_self(self):
        pass

    def _on_error(self, loop, context):
        exc = context.get('exception')
        self.errors.append((context.get('message'), repr(exc)))

    # -- parked I/O points -------------------------------------------------
    async def point(self, label):
        """Park the calling task until the explorer resolves this point."""
        fut = self.create_future()
        self.parked.append((label, fut))
        await fut

    # -- quiescence ----------------------------------------------------------
    def _next_timer(self):
        # earliest non-cancelled timer
        live = [h for h in self._scheduled if not h._cancelled]
        if not live:
            return None
        return min(live, key=lambda h: (h._when, id(h)))._when

    def _at_quiescence(self, timeout):
        self.steps += 1
        if self.steps > self.horizon:
            raise HorizonHit()
        self.parked = [(lb, f) for lb, f in self.parked if not f.done()]
        if self._stop_when is not None and self._stop_when():
            raise Quiescent()
        options = [('point', lb, f) for lb, f in self.parked]
        when = self._next_timer()
        if when is not None and (self.time_limit is None or
                                 when <= self.time_limit):
            options.append(('timer', 'timer@%g' % when, when))
        if not options:
            raise Quiescent()
        if self.chooser is None or self.setup:
            idx = 0
        else:
            idx = self.chooser(self, options)
        kind, label, obj = options[idx]
        if not self.setup:
            self.choices.append((len(options), idx, label))
        if kind == 'point':
            self.parked = [(lb, f) for lb, f in self.parked if f is not obj]
            obj.set_result(None)
            if self.multi_budget > 0 and self.parked and \
                    self.chooser is not None and not self.setup:
                more = [('none', 'no-second-completion', None)] + \
                    [('point', 'also:' + lb, f) for lb, f in self.parked]
                j = self.chooser(self, more)
                self.choices.append((len(more), j, more[j][1]))
                if j:
                    self.multi_budget -= 1
                    f2 = more[j][2]
                    self.parked = [(lb, f) for lb, f in self.parked
                                   if f is not f2]
                    f2.set_result(None)
        else:
            self.timer_fired += 1
            if self.on_timer:
                self.on_timer()
            if obj > self._vtime:
                self._vtime = obj

    # -- driving -------------------------------------------------------------
    def run(self, coro=None, until=None):
        """Run until quiescent (or until() is true at a quiescence point).
        Returns the task for coro, if one was given."""
        task = None
        events._set_running_loop(None)
        if coro is not None:
            task = self.create_task(coro)
        self._stop_when = until
        try:
            self.run_forever()
        except Quiescent:
            pass
        finally:
            self._stop_when = None
            # run_forever's finally already reset the running loop
        return task

    def run_value(self, coro):
        """Run to quiescence and return coro's result / raise its
        exception; the coroutine not finishing is reported as Deadlock."""
        task = self.run(coro)
        if not task.done():
            raise Deadlock('coroutine did not finish: parked=%r' %
                           [lb for lb, _ in self.parked])
        return task.result()

    def collect_errors(self):
        gc.collect(1)
        e, self.errors = self.errors, []
        return e


class HorizonHit(Exception):
    pass


class Deadlock(Exception):
    pass


def install(loop):
    """Make `loop` the current loop for code that calls
    asyncio.get_event_loop() / create_task outside a running task."""
    asyncio.set_event_loop(loop)
    return loop
