"""Shared plumbing: repo import path, evidence, replay files, known findings.

Every check imports python-socketio from $VERIF_REPO/src (default /repo/src)
so it always sees the current working tree.
"""
import json
import logging
import os
import sys
import time

VERIF_DIR = os.path.dirname(os.path.dirname(os.path.abspath(__file__)))
REPO = os.environ.get('VERIF_REPO', '/repo')
SRC = os.path.join(REPO, 'src')
GUARD = 'SOCKETIO_VERIF'


def setup_imports():
    os.environ.setdefault(GUARD, '1')
    if SRC not in sys.path:
        sys.path.insert(0, SRC)
    import socketio  # noqa
    got = os.path.realpath(os.path.dirname(socketio.__file__))
    want = os.path.realpath(os.path.join(SRC, 'socketio'))
    if got != want:
        raise HarnessError(f'socketio imported from {got}, wanted {want}')
    # silence every logger the library touches: logging is not under test and
    # the default StreamHandler would write tracebacks for contained errors
    logging.disable(logging.CRITICAL)
    return socketio


class HarnessError(Exception):
    """Something in the verification machinery (not the code under test) is
    wrong: exit code 2."""


class Violation(Exception):
    def __init__(self, key, message, witness=None):
        super().__init__(message)
        self.key = key          # cause classifier, see DESIGN.md section 5
        self.message = message
        self.witness = witness  # JSON-able description of the failing case


# --------------------------------------------------------------------------
# known findings

def load_known_findings(prop):
    """Return (known: dict key -> text, fixed: list of text)."""
    path = os.path.join(VERIF_DIR, 'KNOWN_FINDINGS.txt')
    known, fixed = {}, []
    if not os.path.exists(path):
        return known, fixed
    for line in open(path):
        line = line.strip()
        if not line or line.startswith('#'):
            continue
        kind, _, rest = line.partition(' ')
        parts = rest.split(' ', 2)
        if not parts or not parts[0].startswith('property='):
            continue
        pid = parts[0][len('property='):]
        if pid != prop:
            continue
        if kind == 'known:' and len(parts) >= 2 and \
                parts[1].startswith('key='):
            known[parts[1][4:]] = parts[2] if len(parts) > 2 else ''
        elif kind == 'fixed:':
            fixed.append(rest)
    return known, fixed


# --------------------------------------------------------------------------
# result collection

def jsonable(x, depth=0):
    if depth > 12:
        return '<deep>'
    if isinstance(x, (str, int, float, bool)) or x is None:
        if isinstance(x, int) and not isinstance(x, bool) and \
                abs(x) > 2 ** 62:
            return f'int:{x}'
        if isinstance(x, float) and (x != x or x in (float('inf'),
                                                     float('-inf'))):
            return repr(x)
        return x
    if isinstance(x, bytes):
        return 'bytes:' + x.hex()
    if isinstance(x, (list, tuple)):
        r = [jsonable(i, depth + 1) for i in x]
        return r if isinstance(x, list) else {'tuple': r}
    if isinstance(x, (set, frozenset)):
        return {'set': sorted((jsonable(i, depth + 1) for i in x), key=repr)}
    if isinstance(x, dict):
        return {str(k) if not isinstance(k, str) else k:
                jsonable(v, depth + 1) for k, v in x.items()}
    return repr(x)


class Result:
    """Accumulates coverage counters and violations for one check run."""

    def __init__(self, prop, tier, seed, level):
        self.prop = prop
        self.tier = tier
        self.seed = seed
        self.level = level
        self.t0 = time.time()
        self.cov = {}
        self.assumptions = []
        self.violations = []      # Violation objects (unlisted)
        self.known_hits = {}      # key -> count
        self.samples = []
        self.known, self.fixed = load_known_findings(prop)
        self.max_violations = int(os.environ.get('VERIF_MAX_VIOL', '5'))
        self._seen_keys = {}

    def add(self, name, n=1):
        self.cov[name] = self.cov.get(name, 0) + n

    def setmax(self, name, v):
        if v > self.cov.get(name, 0):
            self.cov[name] = v

    def sample(self, s, limit=6):
        if len(self.samples) < limit:
            self.samples.append(jsonable(s))

    def violation(self, key, message, witness=None):
        """Record a violation; returns True if it is unlisted (new)."""
        if key in self.known:
            self.known_hits[key] = self.known_hits.get(key, 0) + 1
            return False
        n = self._seen_keys.get(key, 0)
        self._seen_keys[key] = n + 1
        if n == 0 and len(self.violations) < self.max_violations:
            self.violations.append(Violation(key, message, witness))
        return True

    def merge(self, other_dict):
        """Merge a worker's partial result (dict form)."""
        for k, v in other_dict.get('cov', {}).items():
            if k.startswith('max_'):
                self.setmax(k, v)
            else:
                self.add(k, v)
        for s in other_dict.get('samples', []):
            if len(self.samples) < 6:
                self.samples.append(s)
        for key, message, witness in other_dict.get('violations', []):
            self.violation(key, message, witness)

    # -- output ------------------------------------------------------------
    def finish(self, rule, explanation, exhaustive=True, extra=None):
        cov = dict(self.cov)
        cov['rule'] = rule
        cov['explanation'] = explanation
        cov['exhaustive'] = bool(exhaustive)
        cov['samples'] = self.samples or ['<none>']
        if extra:
            cov.update(extra)
        cov.setdefault('evaluations', cov.get('transitions', 0))
        cov.setdefault('distinct_nontrivial', cov.get('states', 0))
        if self.level == 'model_checking':
            cov.setdefault('states', 0)
            cov.setdefault('transitions', 0)
            cov.setdefault('traces_validated_against_impl',
                           cov.get('transitions', 0))
        cov['known_findings_hit'] = dict(self.known_hits)
        ev = {
            'property_id': self.prop,
            'tier': self.tier,
            'seed': self.seed,
            'level': self.level,
            'coverage': cov,
            'assumptions': self.assumptions,
            'wall_s': round(time.time() - self.t0, 3),
            'violations': len(self.violations),
        }
        evdir = os.path.join(VERIF_DIR, 'evidence')
        if os.environ.get('VERIF_NO_EVIDENCE'):
            # runs against seeded changes must not touch committed evidence
            evdir = '/tmp/verif_scratch_evidence'
        os.makedirs(evdir, exist_ok=True)
        path = os.path.join(evdir, self.prop + '.json')
        tmp = path + '.tmp%d' % os.getpid()
        with open(tmp, 'w') as f:
            json.dump(ev, f, indent=1, sort_keys=True, default=repr)
        os.replace(tmp, path)
        for key, n in sorted(self.known_hits.items()):
            print(f'KNOWN-FINDING: property={self.prop} {key}: '
                  f'{self.known[key]} ({n} witnesses this run)')
        code = 0
        for i, v in enumerate(self.violations):
            rp = write_replay(self.prop, i, v)
            print(f'  violation key={v.key}: {v.message}')
            print(f'VIOLATION property={self.prop} replay={rp}')
            code = 1
        summary = {k: v for k, v in cov.items()
                   if isinstance(v, (int, float, bool))}
        print(f'[{self.prop}] tier={self.tier} seed={self.seed} '
              f'wall={ev["wall_s"]}s {summary}')
        return code


def write_replay(prop, idx, v):
    d = os.path.join(VERIF_DIR, 'replays')
    os.makedirs(d, exist_ok=True)
    path = os.path.join(d, f'{prop}_{idx}.json')
    with open(path, 'w') as f:
        json.dump({'property': prop, 'key': v.key, 'message': v.message,
                   'witness': jsonable(v.witness)}, f, indent=1,
                  default=repr)
    return path


def seed_from_env(default=0):
    try:
        return int(os.environ.get('VERIF_SEED', default))
    except ValueError:
        return default


def rotate(seq, seed):
    """Deterministic rotation used to vary *which names* instantiate an
    alphabet; never which cases are visited."""
    seq = list(seq)
    if not seq:
        return seq
    k = seed % len(seq)
    return seq[k:] + seq[:k]


def unjson(x):
    """Inverse of jsonable() for the shapes used in replay files."""
    if isinstance(x, str) and x.startswith('bytes:'):
        return bytes.fromhex(x[6:])
    if isinstance(x, str) and x.startswith('int:'):
        return int(x[4:])
    if isinstance(x, list):
        return [unjson(i) for i in x]
    if isinstance(x, dict):
        if set(x) == {'tuple'}:
            return tuple(unjson(i) for i in x['tuple'])
        if set(x) == {'set'}:
            return frozenset(unjson(i) for i in x['set'])
        return {k: unjson(v) for k, v in x.items()}
    return x


def generic_replay(path):
    """Re-execute a recorded witness without the explorer (twice: the two
    runs must agree)."""
    d = json.load(open(path))
    w = unjson(d['witness'])
    runs = []
    for _ in range(2):
        if isinstance(w, dict) and 'model' in w:
            from . import e1
            v = e1.replay(w['model'], w['params'], w['history'])
        elif isinstance(w, dict) and 'rerun' in w:
            # fast exhaustive checks: re-run the named part of the check and
            # keep the violations carrying the recorded key
            import importlib
            mod = importlib.import_module(w['rerun']['module'])
            r = Result(d['property'], 'quick', seed_from_env(), 'other')
            r.max_violations = 10 ** 6
            r.known = {}
            getattr(mod, w['rerun']['func'])(r, *w['rerun'].get('args', []))
            v = [(x.key, x.message) for x in r.violations
                 if x.key == d['key']][:3]
        elif isinstance(w, dict) and 'replay' in w:
            import importlib
            mod = importlib.import_module(w['replay']['module'])
            v = getattr(mod, w['replay']['func'])(*w['replay'].get('args', []))
        else:
            raise HarnessError('witness has no replay recipe')
        runs.append([list(x) for x in v])
    if runs[0] != runs[1]:
        raise HarnessError('replay is not deterministic: %r vs %r' %
                           (runs[0], runs[1]))
    for key, msg in runs[0]:
        print(f'  replayed violation key={key}: {msg}')
    if runs[0]:
        print(f'VIOLATION property={d["property"]} replay={path}')
        return 1
    print('replay: no violation reproduced')
    return 0
