"""E1: explicit-state breadth-first search over operation histories.

A state is represented by the shortest history that reaches it; every
expansion builds a fresh world, replays the history on the real objects,
applies one more operation and canonicalises.  Frontier layers are expanded
by a pool of long-lived worker processes.
"""
import multiprocessing as mp
import os
import traceback

from . import common

_MODELS = {}


def register(name, factory):
    """factory(**params) -> model object with:
         initial() -> world
         ops(world) -> list of JSON-able op tuples enabled in this state
         apply(world, op) -> None   (drives real objects + reference, and
                                     appends violations to world.violations
                                     as (key, message) tuples)
         canon(world) -> hashable canonical state
         probe(world) -> None      (optional: pure observations, checked)
         future(world) -> hashable (optional: a *destructive* bounded look
                                    into the future, run on a throw-away
                                    rebuild of the state.  It is part of the
                                    state identity - two histories are merged
                                    only if the structural canon and this
                                    behavioural fingerprint agree - and when
                                    apply() set world.expect_noop it must equal
                                    the parent state's fingerprint)
         close(world)
    """
    _MODELS[name] = factory


def _build(model, hist):
    w = model.initial()
    for op in hist:
        model.apply(w, op)
    return w


def _future(model, hist, viols=None):
    """Fingerprint of the bounded future of the state reached by hist;
    violations the look-ahead itself runs into are appended to `viols`."""
    w = _build(model, hist)
    try:
        pre = len(w.violations)
        fp = model.future(w)
        if viols is not None:
            viols += [(k, m + ' [in the look-ahead after the history]')
                      for k, m in w.violations[pre:]]
        return fp
    finally:
        model.close(w)


def drain_future(model, w, ops):
    """A generic bounded look-ahead: apply `ops` (typically "every
    transport is lost"), run the model's probe, and return the keys of the
    violations met as the fingerprint.  On a tree where the property holds
    the fingerprint is always empty, so no state is split; where hidden
    state makes two merged histories behave differently later, the
    difference is found whichever history the search kept."""
    pre = len(w.violations)
    for op in ops:
        if op in model.ops(w):
            model.apply(w, op)
    if hasattr(model, 'probe'):
        model.probe(w)
    return tuple(sorted({k for k, _ in w.violations[pre:]}))


def _noop_violation(model, w, op, fp, parent_fp):
    if getattr(w, 'expect_noop', False) and fp != parent_fp:
        return [(getattr(model, 'NOOP_KEY', 'noop-side-effect'),
                 f'{op}: must be ignored without side effect, but what '
                 f'follows differs: without it {parent_fp!r}, after it '
                 f'{fp!r}')]
    return []


def _expand(args):
    name, params, hists, use_future = args
    try:
        model = _MODELS[name](**params)
        has_future = use_future and hasattr(model, 'future')
        out = []
        for hist in hists:
            hist = list(hist)
            w = _build(model, hist)
            ops = model.ops(w)
            model.close(w)
            parent_fp = _future(model, hist) if has_future else None
            for op in ops:
                w = _build(model, hist)
                pre = len(w.violations)
                model.apply(w, op)
                viols = list(w.violations[pre:])
                if hasattr(model, 'probe'):
                    k0 = model.canon(w)
                    pre = len(w.violations)
                    model.probe(w)
                    viols += list(w.violations[pre:])
                    key = model.canon(w)
                    if key != k0:
                        viols.append(('impure-probe',
                                      'a pure observation changed the state'))
                else:
                    key = model.canon(w)
                obs = getattr(w, 'obs_key', None)
                model.close(w)
                if has_future:
                    fp = _future(model, hist + [op], viols)
                    key = (key, fp)
                    viols += _noop_violation(model, w, op, fp, parent_fp)
                out.append((tuple(hist) + (op,), key, viols, obs))
        return ('ok', out)
    except Exception:
        return ('err', traceback.format_exc())


_pool = None


def pool(workers=None):
    global _pool
    if _pool is None:
        workers = workers or min(16, os.cpu_count() or 1)
        ctx = mp.get_context('fork')
        _pool = ctx.Pool(workers)
    return _pool


def shutdown():
    global _pool
    if _pool is not None:
        _pool.terminate()
        _pool = None


def chunks(seq, n):
    n = max(1, n)
    for i in range(0, len(seq), n):
        yield seq[i:i + n]


def explore(name, params, result, max_depth, workers=None, max_states=None,
            prefix='', use_future=True):
    """BFS to closure or max_depth.  Returns dict(states, transitions,
    max_depth, closure).  Violations go to result.violation()."""
    model = _MODELS[name](**params)
    w0 = model.initial()
    k0 = model.canon(w0)
    if use_future and hasattr(model, 'future'):
        k0 = (k0, _future(model, []))
    if hasattr(model, 'probe'):
        model.probe(w0)
        for key, msg in w0.violations:
            result.violation(key, msg, {'model': name, 'params': params,
                                        'history': []})
    model.close(w0)
    seen = {k0}
    frontier = [()]
    transitions = 0
    depth = 0
    closure = False
    obs_keys = set()
    serial = (workers == 1)
    nviol = 0
    while frontier and depth < max_depth:
        if nviol > 2000:
            # the tree under test is broken in so many places that going on
            # only burns time (a broken tree can also blow the state space
            # up); the verdict is settled
            break
        depth += 1
        nxt = []
        jobs = [(name, params, c, use_future) for c in
                chunks(frontier, max(1, len(frontier) // 64))]
        if serial or len(frontier) < 4:
            results = map(_expand, jobs)
        else:
            results = pool(workers).imap_unordered(_expand, jobs)
        layer = []
        for status, out in results:
            if status == 'err':
                raise common.HarnessError('worker failed:\n' + out)
            layer.extend(out)
        layer.sort(key=lambda x: repr(x[0]))   # deterministic order
        for hist, key, viols, obs in layer:
            transitions += 1
            if obs is not None:
                obs_keys.add(obs)
            for vkey, msg in viols:
                if result.violation(vkey, msg, {'model': name,
                                                'params': params,
                                                'history': list(hist)}):
                    nviol += 1       # known findings do not count
            if key not in seen:
                seen.add(key)
                nxt.append(hist)
                if len(seen) <= 3 or (len(seen) % 997 == 0):
                    result.sample({'model': name, 'history': list(hist)})
        frontier = nxt
        if max_states and len(seen) > max_states:
            break
    if not frontier:
        closure = True
    result.add(prefix + 'states', len(seen))
    result.add(prefix + 'transitions', transitions)
    result.setmax('max_depth', depth)
    if obs_keys:
        result.add(prefix + 'distinct_outcomes', len(obs_keys))
    return {'states': len(seen), 'transitions': transitions, 'depth': depth,
            'closure': closure, 'frontier_left': len(frontier)}


def replay(name, params, hist):
    model = _MODELS[name](**params)
    w = _build(model, hist)
    if hasattr(model, 'probe'):
        model.probe(w)
    v = list(w.violations)
    model.close(w)
    if hasattr(model, 'future') and hist:
        hist = list(hist)
        v += _noop_violation(model, w, hist[-1], _future(model, hist, v),
                             _future(model, hist[:-1]))
    return v
