"""E3: baton-scheduled real threads + stateless DFS over schedules.

Every scheduled thread owns a semaphore and runs only while it holds the
baton.  At a scheduling point it hands the baton back to the controller,
which picks the next enabled thread.  Canonical order of the enabled list:
the thread that ran last (if still enabled) first, then ascending ids, then
"timeout fires" options.  Choosing anything but option 0 while the running
thread is still enabled costs one preemption.
"""
import sys
import threading

from . import common


class Abort(BaseException):
    """Raised inside scheduled threads when an execution is torn down."""


class SThread:
    def __init__(self, sched, tid, name, target, args, kwargs):
        self.sched = sched
        self.tid = tid
        self.name = name
        self.target = target
        self.args = args
        self.kwargs = kwargs
        self.sem = threading.Semaphore(0)
        self.state = 'runnable'     # runnable | blocked | done
        self.blocked_on = None      # ('event', ev, has_timeout) | ('join', t)
        self.wake_reason = None
        self.exc = None
        self.result = None
        self.label = 'start'
        self.thread = threading.Thread(target=self._main, daemon=True,
                                       name='mc-' + name)

    def _main(self):
        self.sem.acquire()
        sched = self.sched
        sched.by_ident[threading.get_ident()] = self
        try:
            if sched.aborting:
                return
            if sched.trace_files:
                sys.settrace(sched._tracer)
            try:
                self.result = self.target(*self.args, **self.kwargs)
            except Abort:
                pass
            except BaseException as e:   # noqa: B902
                self.exc = e
            finally:
                sys.settrace(None)
        finally:
            self.state = 'done'
            if not sched.aborting:
                sched.ctrl.release()

    # handle API used by the code under test
    def join(self, timeout=None):
        me = self.sched.me()
        if me is None:
            return
        self.sched.point('join')
        if self.state == 'done':
            return
        me.state = 'blocked'
        me.blocked_on = ('join', self)
        self.sched._block(me)

    def is_alive(self):
        return self.state != 'done'


class CEvent:
    """Controlled replacement for threading.Event."""

    def __init__(self, sched, name='ev'):
        self.sched = sched
        self.name = name
        self._flag = False
        self.timeouts = []     # timeouts passed to wait(), in call order
        self.fired = 0         # how many waits on this event timed out

    def is_set(self):
        self.sched.point(self.name + '.is_set')
        return self._flag

    isSet = is_set

    def set(self):
        self.sched.point(self.name + '.set')
        self._flag = True
        # notify current waiters (they return True even if cleared later)
        for t in self.sched.threads:
            if t.state == 'blocked' and t.blocked_on[0] == 'event' and \
                    t.blocked_on[1] is self:
                t.state = 'runnable'
                t.wake_reason = 'set'

    def clear(self):
        self.sched.point(self.name + '.clear')
        self._flag = False

    def wait(self, timeout=None):
        sched = self.sched
        me = sched.me()
        self.timeouts.append(timeout)
        if me is None:
            return self._flag
        sched.point(self.name + '.wait')
        if self._flag:
            return True
        me.state = 'blocked'
        me.blocked_on = ('event', self, timeout is not None)
        me.wake_reason = None
        sched._block(me)
        return me.wake_reason == 'set'


class Sched:
    def __init__(self, chooser, horizon=20000, trace_files=()):
        self.chooser = chooser
        self.horizon = horizon
        self.threads = []
        self.by_ident = {}
        self.ctrl = threading.Semaphore(0)
        self.current = None
        self.aborting = False
        self.steps = 0
        self.choices = []        # (n_options, chosen, label, cur_enabled)
        self.status = None       # 'done' | 'deadlock' | 'horizon'
        self.trace_files = tuple(trace_files)
        self.timeouts_fired = 0
        self.trace = []          # (thread name, label it proceeds past)
        self.on_timeout = None   # callable(thread, event) when a wait times out

    # -- used by scenario code ---------------------------------------------
    def spawn(self, target, *args, name=None, **kwargs):
        t = SThread(self, len(self.threads), name or 't%d' %
                    len(self.threads), target, args, kwargs)
        self.threads.append(t)
        t.thread.start()
        return t

    def event(self, name='ev'):
        return CEvent(self, name)

    def me(self):
        return self.by_ident.get(threading.get_ident())

    def point(self, label='p'):
        me = self.me()
        if me is None:
            return               # called from the controller (set-up code)
        if self.aborting:
            raise Abort()
        me.label = label
        self.ctrl.release()
        me.sem.acquire()
        if self.aborting:
            raise Abort()

    def _block(self, me):
        """Give the baton away while blocked; returns when rescheduled."""
        if self.aborting:
            raise Abort()
        self.ctrl.release()
        me.sem.acquire()
        if self.aborting:
            raise Abort()

    def _tracer(self, frame, event, arg):
        if frame.f_code.co_filename.endswith(self.trace_files):
            return self._line_tracer
        return None

    def _line_tracer(self, frame, event, arg):
        if event == 'line':
            self.point('%s:%d' % (frame.f_code.co_name, frame.f_lineno))
        return self._line_tracer

    # -- controller ----------------------------------------------------------
    def _enabled(self):
        run, tmo = [], []
        for t in self.threads:
            if t.state == 'runnable':
                run.append((t, 'run'))
            elif t.state == 'blocked':
                b = t.blocked_on
                if b[0] == 'join':
                    if b[1].state == 'done':
                        run.append((t, 'run'))
                elif b[0] == 'event' and b[2]:
                    tmo.append((t, 'timeout'))
        cur = self.current
        cur_enabled = False
        if cur is not None:
            for i, (t, k) in enumerate(run):
                if t is cur:
                    run.insert(0, run.pop(i))
                    cur_enabled = True
                    break
        return run + tmo, cur_enabled

    def run(self):
        while True:
            opts, cur_enabled = self._enabled()
            if not opts:
                self.status = 'done' if all(t.state == 'done'
                                            for t in self.threads) \
                    else 'deadlock'
                break
            self.steps += 1
            if self.steps > self.horizon:
                self.status = 'horizon'
                break
            if len(opts) == 1:
                idx = 0
            else:
                labels = ['%s:%s:%s' % (t.name, k, t.label)
                          for t, k in opts]
                idx = self.chooser(len(opts), labels)
                self.choices.append((len(opts), idx, labels[idx],
                                     cur_enabled))
            t, kind = opts[idx]
            if kind == 'timeout':
                t.wake_reason = 'timeout'
                t.state = 'runnable'
                t.blocked_on[1].fired += 1
                if self.on_timeout:
                    self.on_timeout(t, t.blocked_on[1])
                self.timeouts_fired += 1
            elif t.state == 'blocked':
                t.state = 'runnable'
            self.current = t
            self.trace.append((t.name, kind, t.label))
            t.sem.release()
            self.ctrl.acquire()
        return self.status

    def teardown(self):
        self.aborting = True
        for t in self.threads:
            if t.state != 'done':
                t.sem.release()
        for t in self.threads:
            t.thread.join(2.0)
            if t.thread.is_alive():
                raise common.HarnessError(
                    'scheduled thread %s would not die' % t.name)


class _Replay:
    def __init__(self, prefix):
        self.prefix = list(prefix)
        self.pos = 0

    def __call__(self, n, labels):
        if self.pos < len(self.prefix):
            idx = self.prefix[self.pos]
            if idx >= n:
                raise common.HarnessError(
                    'replay divergence: choice %d of %d (%r)' % (idx, n,
                                                                labels))
        else:
            idx = 0
        self.pos += 1
        return idx


def run_one(scenario, prefix, horizon=20000, trace_files=()):
    sched = Sched(_Replay(prefix), horizon=horizon, trace_files=trace_files)
    try:
        finish = scenario(sched)
        status = sched.run()
        outcome = finish(status)
    finally:
        sched.teardown()
    return sched.choices, outcome


def explore(scenario, on_outcome, bound=None, max_execs=None, horizon=20000,
            trace_files=()):
    """Stateless DFS, preemption-bounded.  Returns stats dict."""
    stack = [([], 0)]
    execs = 0
    complete = True
    maxlen = 0
    while stack:
        if max_execs is not None and execs >= max_execs:
            complete = False
            break
        prefix, used = stack.pop()
        choices, outcome = run_one(scenario, prefix, horizon, trace_files)
        execs += 1
        maxlen = max(maxlen, len(choices))
        if [c[1] for c in choices[:len(prefix)]] != prefix:
            raise common.HarnessError('replay divergence in prefix')
        on_outcome(choices, outcome)
        for i in range(len(choices) - 1, len(prefix) - 1, -1):
            n, _, _, cur_enabled = choices[i]
            cost = 1 if cur_enabled else 0
            if bound is not None and used + cost > bound:
                continue
            base = [c[1] for c in choices[:i]]
            for alt in range(n - 1, 0, -1):
                stack.append((base + [alt], used + cost))
    return dict(executions=execs, complete=complete, max_choices=maxlen,
                preemption_bound=bound)
