"""E2: stateless DFS over asyncio schedules on the virtual loop.

An execution is determined by its list of choices at quiescence points
(which parked I/O point to resolve / let the earliest timer fire).  Default
choice is 0 (oldest parked point); every alternative at every later point is
explored; an optional bound limits the number of non-default choices
(deviations) per execution.
"""
from . import common
from .vloop import VLoop, install, HorizonHit


# default budget of "two completions in one selector round" deviations per
# execution (see VLoop.multi_budget); scenarios may raise it
MULTI = int(__import__('os').environ.get('VERIF_E2_MULTI', '1'))


class Execution:
    def __init__(self, prefix):
        self.prefix = list(prefix)
        self.pos = 0
        self.diverged = False

    def chooser(self, loop, options):
        if self.pos < len(self.prefix):
            idx = self.prefix[self.pos]
            if idx >= len(options):
                raise common.HarnessError(
                    'replay divergence: choice %d of %d at step %d (%r)' % (
                        idx, len(options), self.pos,
                        [o[1] for o in options]))
        else:
            idx = 0
        self.pos += 1
        return idx


def run_one(scenario, prefix, horizon=5000):
    """scenario(loop) -> finish() callable; returns (choices, outcome)."""
    ex = Execution(prefix)
    loop = install(VLoop(chooser=ex.chooser, horizon=horizon))
    loop.multi_budget = MULTI
    try:
        finish = scenario(loop)
        try:
            loop.run()
            hit = False
        except HorizonHit:
            hit = True
        outcome = finish(hit)
        choices = list(loop.choices)
    finally:
        try:
            import asyncio
            for t in asyncio.all_tasks(loop):
                t.cancel()
            loop.chooser = None
            loop.horizon = 10 ** 9
            loop.run()
        except Exception:
            pass
        loop.close()
        install(None) if False else None
    return choices, outcome


def explore(scenario, on_outcome, bound=None, max_execs=None, horizon=5000):
    """DFS.  on_outcome(choices, outcome) is called for every execution.
    Returns dict(executions, complete, max_choices, deviations_bound)."""
    stack = [[]]
    execs = 0
    maxlen = 0
    complete = True
    while stack:
        if max_execs is not None and execs >= max_execs:
            complete = False
            break
        prefix = stack.pop()
        choices, outcome = run_one(scenario, prefix, horizon)
        execs += 1
        maxlen = max(maxlen, len(choices))
        if [c[1] for c in choices[:len(prefix)]] != prefix:
            raise common.HarnessError('replay divergence in prefix')
        on_outcome(choices, outcome)
        dev = sum(1 for c in prefix if c != 0)
        for i in range(len(choices) - 1, len(prefix) - 1, -1):
            n = choices[i][0]
            if n > 1 and (bound is None or dev < bound):
                base = [c[1] for c in choices[:i]]
                for alt in range(n - 1, 0, -1):
                    stack.append(base + [alt])
    return dict(executions=execs, complete=complete, max_choices=maxlen,
                deviations_bound=bound)
