"""Cluster world (DESIGN.md 2.3): 2-4 server worlds whose managers are trivial
subclasses of the real PubSubManager / AsyncPubSubManager joined by one
pickled FIFO channel; plus an optional write-only manager."""
import collections
import pickle

from . import common
from .worlds import ServerWorld

socketio = common.setup_imports()


class Hub:
    def __init__(self):
        self.log = []          # every message ever published (pickled)
        self.cursor = {}       # host name -> index of next message

    def publish(self, data):
        self.log.append(pickle.dumps(data))

    def pending(self, host):
        return len(self.log) - self.cursor.get(host, 0)

    def take(self, host):
        i = self.cursor.get(host, 0)
        if i >= len(self.log):
            return None
        self.cursor[host] = i + 1
        return self.log[i]


def make_manager(is_async, hub, host_id, write_only=False):
    if is_async:
        from socketio.async_pubsub_manager import AsyncPubSubManager

        class M(AsyncPubSubManager):
            def __init__(self):
                super().__init__(write_only=write_only)
                self.host_id = host_id
                self.feed = collections.deque()

            async def _publish(self, data):
                hub.publish(data)

            async def _listen(self):
                # consume-once: a re-iterable feed would make the listener's
                # restart loop spin forever
                while self.feed:
                    yield self.feed.popleft()
    else:
        class M(socketio.PubSubManager):
            def __init__(self):
                super().__init__(write_only=write_only)
                self.host_id = host_id
                self.feed = collections.deque()

            def _publish(self, data):
                hub.publish(data)

            def _listen(self):
                while self.feed:
                    yield self.feed.popleft()
    return M()


class Cluster:
    def __init__(self, is_async, nhosts, setup=None, with_writer=True,
                 **server_kwargs):
        self.is_async = is_async
        self.hub = Hub()
        self.hosts = []
        loop = None
        for i in range(nhosts):
            name = 'H%d' % i
            mgr = make_manager(is_async, self.hub, name)
            w = ServerWorld(is_async=is_async, manager=mgr, loop=loop,
                            id_prefix=name + '-', **server_kwargs)
            loop = w.loop
            w.host = name
            if setup:
                setup(w)
            self.hosts.append(w)
        self.loop = loop
        self.writer = make_manager(is_async, self.hub, 'W',
                                   write_only=True) if with_writer else None

    def consume(self, h):
        """Host h processes the next channel message through the real
        listener loop.  Returns False if nothing was pending."""
        w = self.hosts[h]
        msg = self.hub.take(w.host)
        if msg is None:
            return False
        mgr = w.sio.manager
        mgr.feed.append(msg)
        w.run(mgr._thread)
        return True

    def drain(self, limit=200):
        """Immediate delivery: every host consumes until the channel is
        quiet."""
        n = 0
        progress = True
        while progress:
            progress = False
            for h in range(len(self.hosts)):
                while self.consume(h):
                    progress = True
                    n += 1
                    if n > limit:
                        raise common.HarnessError('channel never drains')
        return n

    def writer_call(self, name, *args, **kwargs):
        w0 = self.hosts[0]
        return w0.run(getattr(self.writer, name), *args, **kwargs)

    def close(self):
        for w in self.hosts:
            if not self.is_async:
                w.close()
        if self.is_async and self.hosts:
            self.hosts[0].close()
