"""Process-parallel map with long-lived workers (fork)."""
import multiprocessing as mp
import os
import traceback

from . import common

_pool = None


def _call(args):
    fn, a = args
    try:
        return ('ok', fn(a))
    except Exception:
        return ('err', traceback.format_exc())


def pmap(fn, jobs, workers=None, ordered=True):
    global _pool
    jobs = list(jobs)
    if len(jobs) <= 1 or os.environ.get('VERIF_SERIAL'):
        results = [_call((fn, j)) for j in jobs]
    else:
        if _pool is None:
            _pool = mp.get_context('fork').Pool(
                workers or min(16, os.cpu_count() or 1))
        results = _pool.map(_call, [(fn, j) for j in jobs], chunksize=1)
    out = []
    for status, r in results:
        if status == 'err':
            raise common.HarnessError('worker failed:\n' + r)
        out.append(r)
    return out


def shutdown():
    global _pool
    if _pool is not None:
        _pool.terminate()
        _pool = None
