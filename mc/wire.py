"""Loopback wire (DESIGN.md 2.3): a server world and a client world joined
through the real engine.io codecs in both framings, FIFO per direction."""
from . import common
from .cworld import ClientWorld
from .worlds import ServerWorld

common.setup_imports()

from engineio import packet as eio_packet     # noqa: E402
from engineio import payload as eio_payload   # noqa: E402


def reframe(pkt, framing):
    """Encode one engine.io packet as the transport would and decode it
    again with the real codec.  WebSocket: text or raw binary frame;
    polling: payload text with b<base64> for binary."""
    if framing == 'websocket':
        enc = pkt.encode()
        return [eio_packet.Packet(encoded_packet=enc)]
    enc = eio_payload.Payload(packets=[pkt]).encode()
    return eio_payload.Payload(encoded_payload=enc).packets


class Wire:
    def __init__(self, is_async, serializer, framing, server_kwargs=None,
                 client_kwargs=None):
        self.is_async = is_async
        self.framing = framing
        self.sw = ServerWorld(is_async=is_async, serializer=serializer,
                              **(server_kwargs or {}))
        self.cw = ClientWorld(is_async=is_async, loop=self.sw.loop,
                              serializer=serializer, reconnection=False,
                              **(client_kwargs or {}))
        sw, cw = self.sw, self.cw
        self.t = sw.new_transport()
        self.sock = sw.transports[self.t]
        sock = self.sock
        self.c2s = 0
        self.s2c = 0
        self.hold = {'c2s': False, 's2c': False}
        self.held = {'c2s': [], 's2c': []}
        if is_async:
            async def client_send(pkt):
                if self.hold['c2s']:
                    self.held['c2s'].append(pkt)
                    return
                for p in reframe(pkt, framing):
                    self.c2s += 1
                    if p.packet_type == eio_packet.MESSAGE and \
                            not sock.closed:
                        await sock.receive(p)
            cw.send_hook = client_send

            async def server_send(pkt):
                if sock.closed:
                    return
                if self.hold['s2c']:
                    self.held['s2c'].append(pkt)
                    return
                for p in reframe(pkt, framing):
                    self.s2c += 1
                    if cw.eio.state == 'connected':
                        await cw.eio._receive_packet(p)
            sock.send = server_send
        else:
            def client_send(pkt):
                if self.hold['c2s']:
                    self.held['c2s'].append(pkt)
                    return
                for p in reframe(pkt, framing):
                    self.c2s += 1
                    if p.packet_type == eio_packet.MESSAGE and \
                            not sock.closed:
                        sock.receive(p)
            cw.send_hook = client_send

            def server_send(pkt):
                if sock.closed:
                    return
                if self.hold['s2c']:
                    self.held['s2c'].append(pkt)
                    return
                for p in reframe(pkt, framing):
                    self.s2c += 1
                    if cw.eio.state == 'connected':
                        cw.eio._receive_packet(p)
            sock.send = server_send
            # whoever waits lets the client's message tasks run
            cw.on_wait = lambda ev, timeout: self.settle()
            sw.wait_hook = lambda ev, timeout: self.settle()

        self._client_send = client_send
        self._server_send = server_send

    def release(self, direction, n=None):
        """Deliver the first n held packets of a direction (all if None),
        in order."""
        held = self.held[direction]
        n = len(held) if n is None else n
        batch, self.held[direction] = held[:n], held[n:]
        was = self.hold[direction]
        self.hold[direction] = False
        send = self._client_send if direction == 'c2s' else \
            self._server_send
        try:
            for pkt in batch:
                if self.is_async:
                    self.sw.run(send, pkt)
                else:
                    send(pkt)
        finally:
            self.hold[direction] = was
        self.settle()

    def release_at(self, direction, idx):
        """Deliver one held packet out of order."""
        if idx >= len(self.held[direction]):
            return          # fewer packets than expected: the oracle's job
        pkt = self.held[direction].pop(idx)
        was = self.hold[direction]
        self.hold[direction] = False
        send = self._client_send if direction == 'c2s' else \
            self._server_send
        try:
            if self.is_async:
                self.sw.run(send, pkt)
            else:
                send(pkt)
        finally:
            self.hold[direction] = was
        self.settle()

    def settle(self):
        if not self.is_async:
            n = 0
            while self.cw.tasks or self.sw.tasks:
                self.cw.run_tasks()
                self.sw.run_tasks()
                n += 1
                if n > 100:
                    raise common.HarnessError('wire never settles')
        else:
            self.sw.loop.run()

    def connect(self, namespaces, **kwargs):
        r = self.cw.connect(script=[], namespaces=namespaces, **kwargs)
        self.settle()
        return r

    def client(self, name, *args, **kwargs):
        r = self.cw.api(name, *args, **kwargs)
        self.settle()
        return r

    def server(self, name, *args, **kwargs):
        r = self.sw.api(name, *args, **kwargs)
        self.settle()
        return r

    def close(self):
        self.cw.close() if not self.is_async else None
        self.sw.close()
        if self.is_async:
            from engineio import base_client as ebc
            del ebc.connected_clients[:]
