# executed by gen_manifest.py; one check(...) call per claimed property

check('C03', 'E1+E2', 'model_checking',
      'explicit-state model checking of the real Manager/AsyncManager plus '
      'stateless exploration of all asyncio interleavings of an emit with '
      'membership changes',
      'Every reachable room-table state for 2-3 transports x 2 namespaces x '
      '1-2 room names (plus a room named after a session id) is reached by '
      'BFS over real operation histories; at every state every '
      'emit(to, skip_sid, namespace) combination and rooms() are compared '
      'with a dict/set reference. Closure is reached, so within the bound '
      'the claim is exhaustive. E2: one AsyncServer emit (room, list of '
      'rooms, broadcast, skip_sid, binary) against concurrent enter+leave / '
      'leave / close_room / disconnect with every transport write a '
      'suspension point; the delivered set must equal the eligible set of '
      'one instant of the emit, each recipient exactly once.',
      'engine.io sockets, bidict trusted; small-scope (<=3 clients, 2 '
      'namespaces, 2 rooms); canonical state identifies clients by slot.',
      'DESIGN.md 6/C03')

check('C01', 'E4', 'exploration',
      'bounded-exhaustive input enumeration against a spec-derived codec',
      'Every packet of a stated finite grammar (7 types x namespaces x ids x '
      'all JSON+bytes trees up to a node budget over a wire-colliding leaf '
      'alphabet) is encoded by the real Packet class and compared '
      'frame-for-frame with an independent v5 codec, decoded again with '
      'every attachment hand-back, and every string up to length L over the '
      'syntax alphabet is decoded by both codecs. Exhaustive over the '
      'grammar; no sampling.',
      'reference codec (mc/refcodec.py) trusted; bare top-level numeric '
      'payloads and explicitly constructed BINARY_* packets with bytes are '
      'outside the domain (counted).',
      'DESIGN.md 6/C01')

check('C04', 'E1+E2', 'model_checking',
      'explicit-state BFS over connection histories + exhaustive asyncio '
      'schedule exploration (virtual loop) of concurrent terminations',
      'All histories of CONNECT (served/unserved/duplicate namespace, 3 auth '
      'payloads, 6 connect-handler outcomes), DISCONNECT, transport loss and '
      'server.disconnect for 2 transports x 3 namespaces are explored to '
      'closure in 20 server configurations against a connection ledger; for '
      'AsyncServer every interleaving of 1-2 (quick) / 3 (thorough) '
      'concurrent terminating causes at handler entry/exit and after every '
      'send is executed on a virtual event loop.',
      'engine.io trusted; sends are treated as suspension points (a superset '
      'of what the unbounded asyncio queue does today); retired-sid monitor '
      'capped.',
      'DESIGN.md 6/C04')

check('C05', 'E1+E2+E3', 'model_checking',
      'explicit-state BFS over event/connection histories with a dispatch/'
      'ACK ledger, plus stateless exploration of asyncio interleavings and '
      'preemption-bounded thread schedules of events racing disconnects',
      'All histories of connect / DISCONNECT / loss / binary header / '
      'attachment (separate operations, so other clients interleave between '
      'frames) for 2-3 transports x 2 namespaces are explored to closure in '
      '8 configurations (async_handlers x Server/AsyncServer x handler '
      'layout); at every state every text event of names x ids {None,0,1,7} '
      'x 14 return shapes is sent from every (transport, namespace) and the '
      'handler log plus the frames queued on ALL transports are compared '
      'with the ledger. E2: two clients on AsyncServer, packets taken up by '
      'per-request tasks in arrival order, handlers suspended: events after '
      'a client\'s DISCONNECT invoke nothing, events before are handled '
      'and acknowledged once, whatever the other client does. E3: the same '
      'scenarios on the threaded Server under the baton scheduler '
      '(preemption-bounded).',
      'engine.io trusted; background handler tasks joined before comparing; '
      'argument shapes rotate across the product.',
      'DESIGN.md 6/C05')

check('C06', 'E1+E2+E3', 'model_checking',
      'explicit-state BFS with an ack ledger; exhaustive schedule '
      'exploration of call() (virtual asyncio loop and baton-scheduled '
      'threads)',
      'All histories of connect/disconnect/loss/emit-with-callback/ACK for 2 '
      'transports x 2 namespaces are explored to closure (ACK ids drawn from '
      'every outstanding or used id of any client plus 0 and max+1, sent '
      'from every transport on every namespace), for Server, AsyncServer and '
      'AsyncServer with coroutine callbacks. call() is explored under every '
      'order of {ACK, duplicate ACK, timeout, DISCONNECT, loss} on both '
      'servers, and emit+coroutine-callback under every interleaving of '
      'duplicate ACKs and disconnects.',
      'per-connection emit counts capped (3/1/0 quick, 4/1/0 thorough); '
      'thread schedules at event-operation granularity; an ACK racing the '
      'timeout expiry may land either way.',
      'DESIGN.md 6/C06')

check('C13', 'E4', 'exploration',
      'bounded-exhaustive enumeration of handler registries against the '
      'documented precedence table',
      'All 2^6 presence/absence combinations of the six target kinds x '
      '{namespace has an unrelated handler} x {Server, AsyncServer, Client, '
      'AsyncClient} x {sync, coroutine handlers} x 2 namespace names are '
      'built on real objects and driven, through real packets, with the '
      'reserved events and ordinary events of 0-2 arguments; which callable '
      'ran and with which arguments is compared with the six-step order. '
      'The space is finite and enumerated completely.',
      'event/namespace names beyond the two used and argument lists longer '
      'than 2 are covered by uniformity of the code, not by the check.',
      'DESIGN.md 6/C13')

check('C17', 'E4', 'exploration',
      'bounded-exhaustive enumeration of helper call shapes against '
      'signature-derived expectations',
      'For the 4 namespace classes x every helper x every subset of optional '
      'parameters (read with inspect.signature from the real classes) x '
      '{keyword, positional prefix} x {truthy sentinels, falsy-but-'
      'meaningful values} x 2 registration namespaces, the helper is called '
      'on a namespace registered with a recording subclass of the real '
      'server/client; every supplied value must arrive by identity under the '
      'same-named parameter, an omitted namespace must arrive as the '
      'registration namespace, the result must come back by identity. '
      'Finite space, enumerated completely.',
      'defaults of omitted optionals other than namespace and parameters the '
      'target lacks are outside the claim (as the property says).',
      'DESIGN.md 6/C17')

check('C16', 'E1', 'model_checking',
      'explicit-state BFS over session histories on real engine.io sessions',
      'All histories of connect / save_session / session() block with '
      'mutation (plain, nested, nested with the inner block first) / '
      'DISCONNECT / server.disconnect / loss + new transport / reconnect are '
      'explored to closure for 2 transports x 2 namespaces on both servers; '
      'at every state get_session() and session() of every live connection '
      'are compared with a reference value whose contents are tagged with '
      '(client slot, namespace, transport), so provenance of any foreign or '
      'stale content is classified.',
      'session writes capped per (transport, namespace); connection '
      'generations capped at 2 in the canonical state.',
      'DESIGN.md 6/C16')

check('C11', 'E1+E2+E3', 'fault_enumeration',
      'explicit-state BFS over client histories x ending causes x injected '
      'handler faults, with a generic residue oracle; plus stateless '
      'exploration of asyncio interleavings and preemption-bounded thread '
      'schedules of a client\'s traffic with disconnect()/transport loss',
      'Every client history up to depth 5 (quick) / 7 (thorough) over '
      '{connect accept/refuse/duplicate, event, enter_room, emit with '
      'unanswered callback, binary header / attachment, 6 malformed frames, '
      'stale-sid API calls, wrong-namespace calls} is ended by every cause '
      '(DISCONNECT, server.disconnect, transport error, engine.io CLOSE) at '
      'every position, with up to 1 (2) "the next application handler '
      'invocation raises" faults. After every step a generic walk of the '
      'server and manager __dict__s must not mention any ended transport or '
      'gone sid; with all transports gone it must equal the fresh server. A '
      'two-point reachable-object count decides growth. E2: 7 scenarios x '
      'always_connect x handler outcome x transport writes suspended or '
      'not, every interleaving at handler entry / write / arrival, ending '
      'in the fresh-server comparison (incl. cancellation of the tear-down '
      'task and a bystander client). E3: five connect-vs-ending scenarios on '
      'the threaded Server, preemption-bounded.',
      'engine.io internals excluded (dependency); depth-bounded (no '
      'closure); 2 transports, the second with a reduced alphabet.',
      'DESIGN.md 6/C11')

check('C12', 'E4', 'fault_enumeration',
      'bounded-exhaustive hostile-frame enumeration x every insertion '
      'position of a bystander script, differential oracle',
      'About 4000 offender text frames (every truncation, deletion, '
      'duplication, misplaced syntax character and unicode digit of 13 valid '
      'frame shapes; digit runs of 1..101; deep nesting; wrong payload '
      'types; placeholder abuse; unknown types and namespaces; ALL strings '
      'up to length 3/4 over 12 syntax characters), stray binary frames, and '
      '~140 msgpack buffers (wrong-typed/missing fields, truncated, '
      'length-lying) are inserted - singly and as contiguous pairs/triples '
      'of 19 representatives - before the steps of a 10-step script run by '
      'two bystander clients; bystander frames, handler log, callbacks, '
      'rooms, sessions and outstanding callbacks are compared step by step '
      'with the offender-free run; frames the implementation or the '
      'reference codec cannot decode must cause no handler invocation and no '
      'output; the object graph may grow only with bytes received.',
      'engine.io exception containment trusted; offender connected to "/" '
      'only; its own connection may become unusable.',
      'DESIGN.md 6/C12')

check('C08', 'E1+E2', 'model_checking',
      'explicit-state BFS over client connection histories with a client '
      'ledger; stateless exploration of the end of an AsyncClient connection '
      'with suspended disconnect handlers',
      'All histories of connect() (namespace subsets and orders, auth value '
      'or callable, wait yes/no, every assignment of {accept, refuse, '
      'silence} to the requested namespaces in every arrival order), server '
      'DISCONNECT per namespace, duplicate CONNECT, emit with outstanding '
      'callback, half-received binary packet, disconnect(), transport loss, '
      'server CLOSE and up to 2-3 successive connections are explored to '
      'closure on Client and AsyncClient (function handlers and class-based '
      'namespaces); CONNECT packets, connect() result, connect/connect_error/'
      'disconnect handler counts, namespace/sid/connected mirror, '
      'BadNamespaceError-without-sending and absence of residue are checked '
      'against the ledger at every step.',
      'real engineio client with the transport cut; reconnection disabled '
      '(C10); server DISCONNECT for unconnected namespaces excluded.',
      'DESIGN.md 6/C08')

check('C09', 'E1+E2', 'model_checking',
      'explicit-state BFS with an ack ledger; exhaustive asyncio schedule '
      'exploration of concurrent message tasks',
      'All histories of client emit-with-callback / call() (answered or '
      'not) / server ACK with ids from every outstanding or used id of both '
      'namespaces plus 0 and max+1 are explored to closure on Client, '
      'AsyncClient and AsyncClient with coroutine handlers/callbacks; at '
      'every state every server event (2 namespaces x handled/unhandled x '
      'ids {None,0,1,7} x 13 return shapes) is delivered and handler log + '
      'ACK frame compared with the ledger. For AsyncClient, duplicate ACKs, '
      'ACKs on two namespaces, two events and ACK-vs-loss are run as '
      'concurrent message tasks under every interleaving.',
      'emit counts capped (3-4 on "/", 1 on "/a"); threaded client message '
      'tasks run to completion in arrival order.',
      'DESIGN.md 6/C09')

check('C20', 'E3', 'model_checking',
      'stateless schedule exploration of real threads under a baton '
      'scheduler (preemption-bounded DFS)',
      'One transport connected to two namespaces; every pair of terminating '
      'causes (server.disconnect, client DISCONNECT, transport loss, '
      'disconnect of the sibling namespace, incl. the same cause twice) runs '
      'as real threads with a scheduling point before every call the server '
      'makes into the client manager and the transport layer and inside the '
      'handler: all schedules with <= 3 preemptions (quick) / all schedules '
      '(thorough), triples with <= 3 preemptions, and line-level points in '
      'server.py/base_manager.py/manager.py with <= 2 preemptions. Oracle: '
      'handler exactly once per sid, no exception escapes a thread, no trace '
      'of the sid afterwards. Each violating schedule is classified by the '
      'window that let the terminators overlap, so the known check-then-mark '
      'window does not mask other causes.',
      'GIL atomicity of single bytecodes; bidict C code not preempted; '
      'engine.io trusted.',
      'DESIGN.md 6/C20')

check('C19', 'E3+E2', 'model_checking',
      'stateless schedule exploration: baton-scheduled threads with line-'
      'level points for SimpleClient, virtual asyncio loop for '
      'AsyncSimpleClient',
      'The real SimpleClient runs on the client world; 8 producer/consumer '
      'scenarios (bursts of 2-3 events, timed receives, final loss, loss '
      'before any event, emit during a successful reconnection, emit/call '
      'after a failed one) are executed under every schedule with <= 2 '
      '(quick) / 3 (thorough) preemptions where every line of '
      'simple_client.py and every event operation is a scheduling point, '
      'and under all schedules at event-operation granularity; '
      'AsyncSimpleClient runs the same scenarios under every order of '
      'arrivals, server answers, receives and timers. Oracle: returned '
      'events = arrivals in order without duplicates; blocked-forever '
      'consumers are reported as lost wake-ups; TimeoutError only if no '
      'event had fully arrived before the wait expired; DisconnectedError '
      'only after the final disconnect and an empty buffer; emit() waits '
      'out a reconnection.',
      'the server accepts CONNECT on its own thread/task; events are '
      'handled inline by one producer in arrival order; some scenarios hit '
      'the execution cap (reported per scenario).',
      'DESIGN.md 6/C19')

check('C10', 'E4/fault', 'fault_enumeration',
      'exhaustive fault-sequence enumeration on the client world (scripted '
      'wait primitives, virtual time)',
      'Every word over {transport failure, namespace refused, success} up '
      'to length 4 (quick) / 6 (thorough) for the successive reconnection '
      'attempts x attempts cap {0,1,3}; 4 causes of loss x reconnection '
      'on/off; a timing grid delay x delay_max x randomization_factor x 3 '
      'jitter values (including delay > delay_max); shutdown() during every '
      'back-off wait; a second loss right after a success and a loss during '
      'an attempt; for Client and AsyncClient. Attempts, their parameters, '
      'the CONNECT packets, the timeout handed to each back-off wait, '
      'handler runs, the single-effort rule and the stop rules are compared '
      'with the back-off table.',
      'waiting observed through the abort-event wait / asyncio.wait_for '
      'only; random.random replaced by constants.',
      'DESIGN.md 6/C10')

check('C07', 'E1', 'model_checking',
      'differential explicit-state BFS: cluster of real servers vs one real '
      'server, plus a depth-bounded BFS with free per-host consumption',
      'Immediate mode: the same operations (connect, DISCONNECT, '
      'server.disconnect / enter / leave / close via every host, emits with '
      'up to two outstanding callbacks acknowledged in either order, loss) '
      'are applied in lockstep to a cluster of 2 (quick) / 2-4 (thorough) '
      'real servers with PubSubManager / AsyncPubSubManager on a pickled '
      'FIFO channel and to one real server with a plain manager, to closure '
      'over all membership states and placements; at every state every '
      'emit(to, skip_sid, via each host or a write-only manager) is '
      'compared frame by frame. Delayed mode: consume(host) interleaves '
      'freely with the operations (depth 5/7, channel <= 2/3): at-most-once, '
      'eligibility within the in-flight window, exactness when no '
      'membership change raced, callbacks once and only for their own ack.',
      'one FIFO log with a cursor per host models the broker; session ids '
      'and ack-id values are normalised; delayed mode is depth-bounded.',
      'DESIGN.md 6/C07')

check('C15', 'E4/fault', 'fault_enumeration',
      'exhaustive channel-message and fault enumeration through the real '
      'listener loop, sentinel oracle',
      'About 1500 channel items (for each of 7 method names every subset of '
      'its fields, every field with each of 8 wrong-typed values, surplus '
      'fields, own-host echoes, callback messages for other hosts / unknown '
      'ids / id 0, malformed callback tuples, non-dict values - each as '
      'pickle, JSON and dict - plus undecodable raw items) are fed, singly '
      'and as all ordered pairs of representatives, to the real _thread() '
      'of PubSubManager and AsyncPubSubManager followed by a valid sentinel '
      'emit that must reach a local client; an own-host echo must change '
      'nothing; a foreign acknowledgement must complete no local callback. '
      'Faults: disconnect handler / transport send / application callback '
      'raise; the listen iterator raises at positions 0-2 and is restarted. '
      'RedisManager and AsyncRedisManager run over a fake redis module with '
      'every failure/success word up to length 4 (8 thorough) at connect or '
      'subscribe, checking delivery after recovery and the 1,2,4..60 '
      'back-off with reset, and publish giving up quietly after one retry.',
      'fake redis module; sleeps are seams; Kombu/Kafka/ZeroMQ/aio-pika '
      'backends need libraries that are not installed.',
      'DESIGN.md 6/C15')

check('C02', 'E4', 'exploration',
      'bounded-exhaustive payload enumeration over a loopback wire built '
      'from the real engine.io codecs',
      'A real server and a real client are joined by a wire that passes '
      'every engine.io packet through the real engine.io codec of the '
      'chosen framing (WebSocket text/binary frames or polling payload with '
      'base64). For {Server+Client, AsyncServer+AsyncClient} x {default, '
      'msgpack} x {WebSocket, polling} x {function handlers, class-based '
      'namespaces}, every JSON+bytes tree up to 3 (4) nodes over an 11-leaf '
      'alphabet plus tuples of 0-3 elements is sent with emit and send in '
      'both directions on two namespaces and also used as handler return '
      'value for callbacks and call(); handler arguments, callback '
      'arguments and call() results are compared by value and exact type '
      'with the tuple/None/other rule; all bursts of 1-3 consecutive '
      'messages check order; held-back acknowledgements check that three '
      'outstanding callbacks each get their own answer.',
      'ints within 64 bits, string keys, tuples only at top level; threaded '
      'client handler tasks started in arrival order and run to completion; '
      'concurrent emitters excluded (documented as unsupported).',
      'DESIGN.md 6/C02')

check('C14', 'E1', 'model_checking',
      'lockstep explicit-state BFS over threaded/asyncio twin worlds '
      '(parity oracle only)',
      'Every transition applies the same operation to a threaded world and '
      'to its asyncio twin and requires equal normalised observations: '
      'frames per peer in per-peer order, handler and callback log, API '
      'results and exception types+messages, manager snapshot, published '
      'pub/sub messages. Server twins (2 transports x 2 namespaces, '
      'always_connect on/off, function / class-based handlers): all '
      'histories up to depth 4 (7); client twins and 2-host pub/sub cluster '
      'twins: to closure. At every state a probe battery runs on both twins '
      '(events with 11 return shapes incl. falsy values, text and binary, 14 '
      'malformed frames, stray binary, emits, send, stale and wrong-'
      'namespace API calls, unknown/zero ACKs, bad channel items). '
      'SimpleClient/AsyncSimpleClient run 4 scripted sequential scenarios.',
      'handlers inline (async_handlers off); namespace-helper parity is '
      'carried by C17; admin classes are outside the property.',
      'DESIGN.md 6/C14')

check('C18', 'E4+E1', 'model_checking',
      'exhaustive credential/payload enumeration for the gate and the '
      'read-only mode; lockstep explicit-state BFS plain vs instrumented '
      'server for transparency',
      'Gate: 5 auth configurations (dict, list, sync predicate, async '
      'predicate, disabled) x development/production x read_only x 34 '
      'payload variants (absent, empty, exact, permuted, every strict '
      'subset, supersets, every value replaced by None/0/True/[v]/'
      '{"$ne":""}/v+" "/upper, wrapped in a list, string, number) on both '
      'servers: CONNECT and admin-namespace membership iff the '
      'configuration admits the payload. Read-only: an authenticated admin '
      'sends emit/join/leave/_disconnect with every room filter; '
      'application clients must see nothing and keep rooms and '
      'connections. Transparency: the C14 server-twin alphabet and probe '
      'battery, plus one stats-reporting interval at every state, run in '
      'lockstep on a plain and an instrumented server (dev/prod x admin '
      'connected or not x Server/AsyncServer) to depth 3 (5); application '
      'frames, handler log, callbacks, rooms and pending state must be '
      'identical.',
      'Python == defines credential equality; engine.io Socket class '
      'patches are restored per world; admin traffic itself is not '
      'compared; the stats task is stepped explicitly.',
      'DESIGN.md 6/C18')
