# executed by gen_manifest.py; one check(...) call per claimed property

check('C03', 'E1', 'model_checking',
      'explicit-state model checking of the real Manager/AsyncManager',
      'Every reachable room-table state for 2-3 transports x 2 namespaces x '
      '1-2 room names (plus a room named after a session id) is reached by '
      'BFS over real operation histories; at every state every '
      'emit(to, skip_sid, namespace) combination and rooms() are compared '
      'with a dict/set reference. Closure is reached, so within the bound '
      'the claim is exhaustive.',
      'engine.io sockets, bidict trusted; small-scope (<=3 clients, 2 '
      'namespaces, 2 rooms); canonical state identifies clients by slot.',
      'DESIGN.md 6/C03')
