#!/venv/bin/python
"""Confirm a seeded change and run checks against it.

usage: seedcheck.py <src-dir with patch.diff, demo.py, notes.md> <seed-id>
                    <prop> [--checks C03,C14] [--keep] [--tier quick]

Steps (all in a scratch worktree under /tmp/seedchk, removed afterwards):
  1. demo.py on the clean tree must exit 0
  2. apply patch; fast test suite (non-admin, 579 tests) must pass;
     admin test files are run too when the patch touches admin code
  3. demo.py with the change must exit non-zero
  4. run the listed checks with VERIF_REPO=<scratch>; report exit codes
With --keep the artefacts and a meta.json are stored in /verif/seeded/<id>/.
"""
import argparse
import json
import os
import shutil
import subprocess
import sys
import time

VERIF = os.path.dirname(os.path.dirname(os.path.abspath(__file__)))
PY = '/venv/bin/python'


def sh(cmd, cwd=None, env=None, timeout=3600):
    e = dict(os.environ)
    if env:
        e.update(env)
    p = subprocess.run(cmd, shell=True, cwd=cwd, env=e, timeout=timeout,
                       stdout=subprocess.PIPE, stderr=subprocess.STDOUT,
                       text=True)
    return p.returncode, p.stdout


def main():
    ap = argparse.ArgumentParser()
    ap.add_argument('src')
    ap.add_argument('seed_id')
    ap.add_argument('prop')
    ap.add_argument('--checks', default=None)
    ap.add_argument('--keep', action='store_true')
    ap.add_argument('--tier', default='quick')
    ap.add_argument('--skip-suite', action='store_true')
    a = ap.parse_args()
    checks = (a.checks or a.prop).split(',')
    scratch = f'/tmp/seedchk/{a.seed_id}'
    sh(f'git -C /repo worktree remove --force {scratch}')
    shutil.rmtree(scratch, ignore_errors=True)
    os.makedirs('/tmp/seedchk', exist_ok=True)
    rc, out = sh(f'git -C /repo worktree add -q --detach {scratch} HEAD')
    if rc:
        print(out)
        return 2
    report = {'seed': a.seed_id, 'property': a.prop, 'ran': []}
    try:
        env = {'PYTHONPATH': f'{scratch}/src', 'PYTHONHASHSEED': '0'}
        demo = os.path.join(a.src, 'demo.py')
        patch = os.path.join(a.src, 'patch.diff')
        rc0, out0 = sh(f'{PY} {demo}', cwd=scratch, env=env, timeout=300)
        report['demo_clean_exit'] = rc0
        rc, out = sh(f'git -C {scratch} apply {patch}')
        if rc:
            # the tree has moved on (fix: commits); retry leniently
            rc, out2 = sh(f'git -C {scratch} apply -3 {patch}')
            if rc:
                rc, out2 = sh(f'patch -p1 --fuzz=3 -i {patch}', cwd=scratch)
            report['patch_applied_with_fallback'] = True
            if rc:
                print('patch does not apply:', out, out2)
                return 2
        touched = open(patch).read()
        if not a.skip_suite:
            rc, out = sh(f'{PY} -m pytest -q -p no:cacheprovider '
                         '--timeout=900 --ignore=tests/async/test_admin.py '
                         '--ignore=tests/common/test_admin.py', cwd=scratch,
                         env=env)
            report['fast_suite'] = out.strip().splitlines()[-1]
            report['fast_suite_exit'] = rc
            if 'admin' in touched:
                rc, out = sh(
                    f'{PY} -m pytest -q -p no:cacheprovider --timeout=900 '
                    'tests/async/test_admin.py tests/common/test_admin.py '
                    '-k "not (test_admin_connect_only_admin or '
                    'test_admin_connect_with_others or '
                    'test_admin_connect_production or test_admin_features)"',
                    cwd=scratch, env=env)
                report['admin_suite'] = out.strip().splitlines()[-1]
                report['admin_suite_exit'] = rc
        rc1, out1 = sh(f'{PY} {demo}', cwd=scratch, env=env, timeout=300)
        report['demo_changed_exit'] = rc1
        report['checks'] = {}
        for c in checks:
            t0 = time.time()
            rc, out = sh(f'{PY} run.py {c} --tier {a.tier}', cwd=VERIF,
                         env={'VERIF_REPO': scratch,
                              'VERIF_NO_EVIDENCE': '1'})
            keys = sorted({ln.split('key=')[1].split(':')[0]
                           for ln in out.splitlines()
                           if ln.strip().startswith('violation key=')})
            report['checks'][c] = {'exit': rc, 'keys': keys,
                                   'wall_s': round(time.time() - t0, 1)}
            report['ran'].append(f'VERIF_REPO=<scratch> run.py {c} '
                                 f'--tier {a.tier}')
            if rc not in (0, 1):
                print(out[-3000:])
    finally:
        sh(f'git -C /repo worktree remove --force {scratch}')
        shutil.rmtree(scratch, ignore_errors=True)
        sh('git -C /repo worktree prune')
    confirmed = (report.get('demo_clean_exit') == 0 and
                 report.get('demo_changed_exit') not in (0, None) and
                 report.get('fast_suite_exit', 0) == 0 and
                 report.get('admin_suite_exit', 0) == 0)
    report['confirmed'] = confirmed
    report['detected_by'] = [c for c, r in report.get('checks', {}).items()
                             if r['exit'] == 1]
    print(json.dumps(report, indent=1))
    if a.keep and confirmed:
        dst = os.path.join(VERIF, 'seeded', a.seed_id)
        os.makedirs(dst, exist_ok=True)
        for f in ('patch.diff', 'demo.py', 'notes.md'):
            if os.path.exists(os.path.join(a.src, f)) and \
                    os.path.abspath(a.src) != os.path.abspath(dst):
                shutil.copy(os.path.join(a.src, f), dst)
        notes = ''
        np = os.path.join(a.src, 'notes.md')
        if os.path.exists(np):
            notes = open(np).read()
        old = {}
        if os.path.exists(os.path.join(dst, 'meta.json')):
            try:
                old = json.load(open(os.path.join(dst, 'meta.json')))
            except Exception:
                old = {}
        meta = {
            'id': a.seed_id,
            'breaks_property': a.prop,
            'needs_to_manifest': notes,
            'confirmation': {
                'demo_exit_clean_tree': report['demo_clean_exit'],
                'demo_exit_with_change': report['demo_changed_exit'],
                'test_suite_with_change': report.get('fast_suite'),
                'admin_suite_with_change': report.get('admin_suite'),
            },
            'what_i_ran': [
                'scratch worktree of /repo HEAD under /tmp/seedchk (removed)',
                'demo.py on clean tree; git apply patch.diff; fast suite '
                '(pytest, admin test files ignored unless touched); demo.py',
            ] + report['ran'],
            'checks': report['checks'],
            'detected_by': report['detected_by'],
        }
        if a.skip_suite and old.get('confirmation', {}).get(
                'test_suite_with_change'):
            # re-evaluation after a check was strengthened: the suite result
            # of the first, full confirmation still stands
            meta['confirmation'] = old['confirmation']
            meta['earlier_verdicts'] = old.get('earlier_verdicts', []) + [
                {'checks': old.get('checks'),
                 'detected_by': old.get('detected_by')}]
        with open(os.path.join(dst, 'meta.json'), 'w') as f:
            json.dump(meta, f, indent=1)
    return 0 if confirmed else 3


if __name__ == '__main__':
    sys.exit(main())
