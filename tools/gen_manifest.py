#!/venv/bin/python
"""Regenerates MANIFEST.json from the table below (single source of truth)
and validates it against the schema."""
import json
import os
import subprocess
import sys

HERE = os.path.dirname(os.path.dirname(os.path.abspath(__file__)))
PY = '/venv/bin/python'

# id -> (engine, level, technique, text, note, design_ref)
CHECKS = {}


def check(pid, engine, level, technique, text, note, ref):
    CHECKS[pid] = (engine, level, technique, text, note, ref)


exec(open(os.path.join(HERE, 'tools', 'manifest_table.py')).read())

ALL = ['C%02d' % i for i in range(1, 21)]
NOT_BUILT = 'check not built yet in this session (design in DESIGN.md ' \
            'section 6); to be claimed once its bounded-exhaustive explorer ' \
            'exists'


def main():
    hooks_commits = []
    hc = os.path.join(HERE, 'tools', 'hook_commits.txt')
    if os.path.exists(hc):
        hooks_commits = [ln.split()[0] for ln in open(hc) if ln.strip()]
    m = {
        'version': 1,
        'setup_cmd': f'{PY} -m compileall -q mc run.py tools && '
                     f'{PY} tools/selftest.py',
        'hooks': {
            'guard': 'SOCKETIO_VERIF',
            'enable': 'no source hooks are needed: checks import '
                      'python-socketio from /repo/src (VERIF_REPO overrides) '
                      'and substitute seams by subclassing / attribute '
                      'assignment on the instances they build',
            'baseline_off_cmd':
                'cd /repo && /venv/bin/python -m pytest -ra -q '
                '-p no:cacheprovider --timeout=900 '
                '--continue-on-collection-errors',
            'source_commits': hooks_commits,
            'add_only': True,
        },
        'engines': [
            {'name': 'E1', 'path': 'mc/e1.py',
             'serves_properties': ['C03', 'C04', 'C05', 'C06', 'C07', 'C08',
                                   'C09', 'C11', 'C12', 'C14', 'C16', 'C18'],
             'kind_free_text': 'explicit-state BFS over operation histories; '
                               'every transition replays the history on fresh '
                               'real objects'},
            {'name': 'E2', 'path': 'mc/vloop.py',
             'serves_properties': ['C04', 'C06', 'C19'],
             'kind_free_text': 'virtual asyncio loop; stateless DFS over '
                               'I/O-completion and timer orders'},
            {'name': 'E3', 'path': 'mc/threads.py',
             'serves_properties': ['C06', 'C10', 'C19', 'C20'],
             'kind_free_text': 'baton-scheduled real threads; stateless DFS '
                               'over schedules, preemption-bounded'},
            {'name': 'E4', 'path': 'mc/enum.py',
             'serves_properties': ['C01', 'C02', 'C12', 'C13', 'C15', 'C17',
                                   'C18'],
             'kind_free_text': 'bounded-exhaustive input enumeration against '
                               'a reference model'},
        ],
        'checks': [],
        'not_applicable': [],
        'notes': 'All checks: /venv/bin/python run.py <id> --tier <tier>; '
                 'exit 0 held, 1 unlisted violation (VIOLATION line), 2 '
                 'harness error. VERIF_SEED rotates concrete names/values '
                 'only. Known findings: KNOWN_FINDINGS.txt.',
    }
    for pid in ALL:
        if pid in CHECKS:
            engine, level, technique, text, note, ref = CHECKS[pid]
            m['checks'].append({
                'property_id': pid,
                'quick_cmd': f'{PY} run.py {pid} --tier quick',
                'thorough_cmd': f'{PY} run.py {pid} --tier thorough',
                'evidence_file': f'/verif/evidence/{pid}.json',
                'replay_cmd_template': f'{PY} run.py {pid} --replay {{path}}',
                'engine': engine,
                'level_claimed': {'category': level, 'text': text,
                                  'design_ref': ref},
                'level_note': note,
                'technique': technique,
            })
        else:
            m['not_applicable'].append({'property_id': pid,
                                        'reason': NOT_BUILT})
    if not m['not_applicable']:
        del m['not_applicable']
    path = os.path.join(HERE, 'MANIFEST.json')
    with open(path, 'w') as f:
        json.dump(m, f, indent=1)
    # validate with the tooling venv's jsonschema
    code = subprocess.call(['python3-vt', '-c', '''
import json, jsonschema, sys
s = json.load(open("/root/.vp/MANIFEST.schema.json"))
m = json.load(open(sys.argv[1]))
jsonschema.validate(m, s)
print("MANIFEST valid:", len(m["checks"]), "checks,",
      len(m.get("not_applicable", [])), "not applicable")
''', path])
    sys.exit(code)


if __name__ == '__main__':
    main()
