#!/venv/bin/python
"""Engine self-tests run by MANIFEST.setup_cmd (fast)."""
import os
import sys

if os.environ.get('PYTHONHASHSEED') != '0':
    os.environ['PYTHONHASHSEED'] = '0'
    os.execv(sys.executable, [sys.executable] + sys.argv)
sys.path.insert(0, os.path.dirname(os.path.dirname(os.path.abspath(__file__))))

from mc import common  # noqa: E402
common.setup_imports()


def test_vloop():
    import asyncio
    from mc.vloop import VLoop, install
    loop = install(VLoop())
    order = []

    async def a():
        await asyncio.sleep(5)
        order.append('a')

    async def b():
        await asyncio.sleep(1)
        order.append('b')

    async def main():
        await asyncio.gather(a(), b())
        return loop.time()
    assert loop.run_value(main()) == 5.0 and order == ['b', 'a'], order
    loop.close()


def test_refcodec():
    from mc import refcodec as rc
    t, frame, atts = rc.ref_frame(2, '/a', 7, ['e', {'x': b'1'}, b'2'])
    assert t == 5 and atts == [b'1', b'2'], (t, atts)
    assert frame == '52-/a,7["e",{"x":{"_placeholder":true,"num":0}},' \
        '{"_placeholder":true,"num":1}]', frame
    assert rc.ref_decode(frame)[:3] == (5, '/a', 7)


def main():
    tests = [v for k, v in sorted(globals().items())
             if k.startswith('test_')]
    extra = os.path.join(os.path.dirname(__file__), 'selftest_engines.py')
    if os.path.exists(extra):
        ns = {}
        exec(compile(open(extra).read(), extra, 'exec'), ns)
        tests += [v for k, v in sorted(ns.items()) if k.startswith('test_')]
    for t in tests:
        t()
    print('selftest ok:', len(tests), 'tests')


if __name__ == '__main__':
    main()
