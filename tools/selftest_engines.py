# executed by selftest.py: toy problems the explorers must solve


def test_e3_finds_lost_update():
    from mc import threads

    def scenario(sched):
        box = {'x': 0}

        def inc():
            v = box['x']
            sched.point('between')
            box['x'] = v + 1
        sched.spawn(inc)
        sched.spawn(inc)
        return lambda status: (status, box['x'])
    seen = set()
    st = threads.explore(scenario, lambda ch, out: seen.add(out))
    assert ('done', 1) in seen and ('done', 2) in seen, seen
    assert st['complete']
    # bound 0 = no preemption: the race must NOT be visible
    seen0 = set()
    threads.explore(scenario, lambda ch, out: seen0.add(out), bound=0)
    assert seen0 == {('done', 2)}, seen0
    # replay determinism
    a = threads.run_one(scenario, [1])
    b = threads.run_one(scenario, [1])
    assert a == b, (a, b)


def test_e3_finds_lost_wakeup():
    from mc import threads

    def scenario(sched):
        ev = sched.event()
        buf = []

        def consumer():
            if not buf:
                ev.clear()       # bug: clear after the check
                ev.wait()
            return buf.pop(0)

        def producer():
            buf.append(1)
            ev.set()
        sched.spawn(consumer)
        sched.spawn(producer)
        return lambda status: status
    seen = set()
    threads.explore(scenario, lambda ch, out: seen.add(out))
    assert seen == {'done', 'deadlock'}, seen


def test_e2_finds_timer_race():
    import asyncio
    from mc import e2

    def scenario(loop):
        res = {}

        async def waiter():
            ev = asyncio.Event()
            res['ev'] = ev
            try:
                await asyncio.wait_for(ev.wait(), 1)
                res['r'] = 'set'
            except asyncio.TimeoutError:
                res['r'] = 'timeout'

        async def setter():
            await loop.point('arrive')
            res['ev'].set()
        loop.create_task(waiter())
        loop.create_task(setter())
        return lambda hit: res.get('r')
    seen = set()
    st = e2.explore(scenario, lambda ch, out: seen.add(out))
    assert seen == {'set', 'timeout'}, seen
    assert st['complete']
