import ast,sys
for f in sys.argv[1:]:
    src=open(f).read()
    tree=ast.parse(src)
    lines=src.split('\n')
    skip=set()
    for node in ast.walk(tree):
        if isinstance(node,(ast.FunctionDef,ast.AsyncFunctionDef,ast.ClassDef,ast.Module)):
            if node.body and isinstance(node.body[0],ast.Expr) and isinstance(getattr(node.body[0],'value',None),ast.Constant) and isinstance(node.body[0].value.value,str):
                for i in range(node.body[0].lineno,node.body[0].end_lineno+1): skip.add(i)
    print('#####',f)
    for i,l in enumerate(lines,1):
        if i in skip: continue
        print(i,l)
