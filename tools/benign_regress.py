#!/venv/bin/python
"""Re-run every kept behaviour-preserving change (benign/<id>/patch.diff)
against all 20 quick checks on the current /repo HEAD and refresh its
verdict.json.  usage: benign_regress.py [--jobs 3] [ids...]"""
import argparse
import concurrent.futures as cf
import json
import os
import subprocess
import sys

VERIF = os.path.dirname(os.path.dirname(os.path.abspath(__file__)))
PY = '/venv/bin/python'


def one(bid):
    d = os.path.join(VERIF, 'benign', bid)
    p = subprocess.run(
        [PY, os.path.join(VERIF, 'tools', 'benign_check.py'), d, bid,
         '--keep', '--jobs', '2'], text=True, stdout=subprocess.PIPE,
        stderr=subprocess.STDOUT)
    try:
        v = json.load(open(os.path.join(d, 'verdict.json')))
        alarms = {c: r['keys'] for c, r in v.get('alarms', {}).items()}
    except Exception as e:
        alarms = {'?': [repr(e)]}
    if p.returncode == 2:
        alarms = {'apply': [p.stdout[-300:]]}
    return bid, p.returncode, alarms


def main():
    ap = argparse.ArgumentParser()
    ap.add_argument('ids', nargs='*')
    ap.add_argument('--jobs', type=int, default=3)
    a = ap.parse_args()
    ids = a.ids or sorted(x for x in os.listdir(os.path.join(VERIF, 'benign'))
                          if os.path.exists(os.path.join(
                              VERIF, 'benign', x, 'patch.diff')))
    bad = []
    with cf.ThreadPoolExecutor(a.jobs) as ex:
        for bid, rc, alarms in ex.map(one, ids):
            print(bid, rc, alarms, flush=True)
            if alarms:
                bad.append(bid)
    print('with alarms:', bad)
    return 1 if bad else 0


if __name__ == '__main__':
    sys.exit(main())
