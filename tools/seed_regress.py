#!/venv/bin/python
"""Re-apply every kept seeded change to a scratch worktree of /repo HEAD and
run the check(s) that are expected to catch it.  Writes seeded/RESULTS.md.
usage: seed_regress.py [--tier quick] [--jobs 4] [ids...]"""
import argparse
import concurrent.futures as cf
import json
import os
import shutil
import subprocess
import sys

VERIF = os.path.dirname(os.path.dirname(os.path.abspath(__file__)))
PY = '/venv/bin/python'


def sh(cmd, cwd=None, env=None):
    e = dict(os.environ)
    e.update(env or {})
    p = subprocess.run(cmd, shell=True, cwd=cwd, env=e, text=True,
                       stdout=subprocess.PIPE, stderr=subprocess.STDOUT)
    return p.returncode, p.stdout


def one(sid, tier):
    d = os.path.join(VERIF, 'seeded', sid)
    meta = json.load(open(os.path.join(d, 'meta.json')))
    scratch = f'/tmp/seedreg/{sid}'
    sh(f'git -C /repo worktree remove --force {scratch}')
    shutil.rmtree(scratch, ignore_errors=True)
    os.makedirs('/tmp/seedreg', exist_ok=True)
    rc, out = sh(f'git -C /repo worktree add -q --detach {scratch} HEAD')
    res = {}
    try:
        patch = os.path.join(d, 'patch.diff')
        rc, out = sh(f'git -C {scratch} apply {patch}')
        if rc:
            rc, out = sh(f'git -C {scratch} apply -3 {patch}')
        if rc:
            rc, out = sh(f'patch -p1 --fuzz=3 -i {patch}', cwd=scratch)
        if rc:
            return sid, meta['breaks_property'], {'apply': 'FAILED'}
        checks = meta.get('detected_by') or [meta['breaks_property']]
        for c in checks:
            rc, out = sh(f'{PY} run.py {c} --tier {tier}', cwd=VERIF,
                         env={'VERIF_REPO': scratch, 'VERIF_NO_EVIDENCE': '1',
                              'VERIF_SERIAL_SEEDS': '1'})
            keys = sorted({ln.split('key=')[1].split(':')[0]
                           for ln in out.splitlines()
                           if ln.strip().startswith('violation key=')})
            res[c] = {'exit': rc, 'keys': keys[:4]}
    finally:
        sh(f'git -C /repo worktree remove --force {scratch}')
        shutil.rmtree(scratch, ignore_errors=True)
    return sid, meta['breaks_property'], res


def main():
    ap = argparse.ArgumentParser()
    ap.add_argument('ids', nargs='*')
    ap.add_argument('--tier', default='quick')
    ap.add_argument('--jobs', type=int, default=3)
    a = ap.parse_args()
    ids = a.ids or sorted(x for x in os.listdir(os.path.join(VERIF, 'seeded'))
                          if os.path.isdir(os.path.join(VERIF, 'seeded', x)))
    rows = []
    with cf.ThreadPoolExecutor(a.jobs) as ex:
        for sid, prop, res in ex.map(lambda s: one(s, a.tier), ids):
            rows.append((sid, prop, res))
            print(sid, res, flush=True)
    sh('git -C /repo worktree prune')
    rows.sort()
    with open(os.path.join(VERIF, 'seeded', 'RESULTS.md'), 'w') as f:
        f.write('# Seeded changes vs. checks (tier: %s, /repo HEAD %s)\n\n' %
                (a.tier, sh('git -C /repo rev-parse --short HEAD')[1]
                 .strip()))
        f.write('| seed | property | check | exit | violation keys |\n')
        f.write('|---|---|---|---|---|\n')
        for sid, prop, res in rows:
            for c, r in res.items():
                if isinstance(r, dict):
                    f.write(f'| {sid} | {prop} | {c} | {r["exit"]} | '
                            f'{", ".join(r["keys"])} |\n')
                else:
                    f.write(f'| {sid} | {prop} | {c} | {r} | |\n')
    missed = [sid for sid, prop, res in rows
              if not any(isinstance(r, dict) and r.get('exit') == 1
                         for r in res.values())]
    expected = []
    for sid in list(missed):
        try:
            m = json.load(open(os.path.join(VERIF, 'seeded', sid,
                                            'meta.json')))
        except Exception:
            continue
        if m.get('not_detected_reason'):
            expected.append(sid)
            missed.remove(sid)
    with open(os.path.join(VERIF, 'seeded', 'RESULTS.md'), 'a') as f:
        f.write('\nDocumented as not detected (meta.json '
                '`not_detected_reason`): %s\n' % (', '.join(expected) or
                                                  'none'))
        f.write('Unexpectedly missed: %s\n' % (', '.join(missed) or 'none'))
    print('documented misses:', expected)
    print('missed:', missed)
    return 1 if missed else 0


if __name__ == '__main__':
    sys.exit(main())
