#!/venv/bin/python
"""Apply a behaviour-preserving change to a scratch worktree of /repo HEAD,
confirm the test suite, and run every quick check against it: any exit code
other than 0 is a false alarm (1) or a harness that depends on an internal
name (2).

usage: benign_check.py <dir with patch.diff> <id> [--checks C03,C04]
       [--keep]   (store under /verif/benign/<id>/ with the verdicts)
"""
import argparse
import concurrent.futures as cf
import json
import os
import shutil
import subprocess
import sys

VERIF = os.path.dirname(os.path.dirname(os.path.abspath(__file__)))
PY = '/venv/bin/python'
ALL = ['C%02d' % i for i in range(1, 21)]


def sh(cmd, cwd=None, env=None):
    e = dict(os.environ)
    e.update(env or {})
    p = subprocess.run(cmd, shell=True, cwd=cwd, env=e, text=True,
                       stdout=subprocess.PIPE, stderr=subprocess.STDOUT)
    return p.returncode, p.stdout


def main():
    ap = argparse.ArgumentParser()
    ap.add_argument('src')
    ap.add_argument('bid')
    ap.add_argument('--checks', default=','.join(ALL))
    ap.add_argument('--keep', action='store_true')
    ap.add_argument('--jobs', type=int, default=2)
    a = ap.parse_args()
    scratch = f'/tmp/benign/{a.bid}'
    sh(f'git -C /repo worktree remove --force {scratch}')
    shutil.rmtree(scratch, ignore_errors=True)
    os.makedirs('/tmp/benign', exist_ok=True)
    rc, out = sh(f'git -C /repo worktree add -q --detach {scratch} HEAD')
    report = {'id': a.bid, 'checks': {}}
    try:
        patch = os.path.join(a.src, 'patch.diff')
        rc, out = sh(f'git -C {scratch} apply {patch}')
        if rc:
            print('patch does not apply', out)
            return 2
        env = {'PYTHONPATH': f'{scratch}/src', 'PYTHONHASHSEED': '0'}
        rc, out = sh(f'{PY} -m pytest -q -p no:cacheprovider --timeout=900 '
                     '--ignore=tests/async/test_admin.py '
                     '--ignore=tests/common/test_admin.py', cwd=scratch,
                     env=env)
        report['fast_suite'] = out.strip().splitlines()[-1]
        report['fast_suite_exit'] = rc

        def run(c):
            rc, out = sh(f'{PY} run.py {c} --tier quick', cwd=VERIF,
                         env={'VERIF_REPO': scratch,
                              'VERIF_NO_EVIDENCE': '1'})
            keys = sorted({ln.split('key=')[1].split(':')[0]
                           for ln in out.splitlines()
                           if ln.strip().startswith('violation key=')})
            tail = '' if rc == 0 else out[-1500:]
            return c, rc, keys, tail
        with cf.ThreadPoolExecutor(a.jobs) as ex:
            for c, rc, keys, tail in ex.map(run, a.checks.split(',')):
                report['checks'][c] = {'exit': rc, 'keys': keys}
                if rc != 0:
                    print(f'--- {c} exit {rc} {keys}\n{tail}')
    finally:
        sh(f'git -C /repo worktree remove --force {scratch}')
        shutil.rmtree(scratch, ignore_errors=True)
        sh('git -C /repo worktree prune')
    bad = {c: r for c, r in report['checks'].items() if r['exit'] != 0}
    report['alarms'] = bad
    print(json.dumps({'id': a.bid, 'suite': report.get('fast_suite'),
                      'alarms': bad}, indent=1))
    if a.keep:
        dst = os.path.join(VERIF, 'benign', a.bid)
        os.makedirs(dst, exist_ok=True)
        for f in ('patch.diff', 'notes.md'):
            if os.path.exists(os.path.join(a.src, f)) and \
                    os.path.abspath(a.src) != os.path.abspath(dst):
                shutil.copy(os.path.join(a.src, f), dst)
        with open(os.path.join(dst, 'verdict.json'), 'w') as f:
            json.dump(report, f, indent=1)
    return 1 if bad else 0


if __name__ == '__main__':
    sys.exit(main())
